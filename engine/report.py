"""Verdict logic: known findings, witness (vacuity) accounting, native replay, evidence."""
import copy
import json
import os
import re
import shutil
import subprocess
import time

from . import core

KNOWN_FILE = os.path.join(core.VERIF, "known_findings.json")
REPLAY_ROOT = os.path.join(core.VERIF, "replays")
EVID_DIR = os.path.join(core.VERIF, "evidence")


def load_known(pid):
    try:
        data = json.load(open(KNOWN_FILE))
    except Exception:
        return []
    return [e for e in data.get("findings", []) if e.get("property") == pid]


def is_witness(f):
    return "WITNESS" in f.desc


def native_replay(job, failure, outdir):
    """Re-run the counterexample against the real sources with gcc + ASan/UBSan."""
    os.makedirs(outdir, exist_ok=True)
    inp = os.path.join(outdir, "inputs.txt")
    with open(inp, "w") as f:
        for n, bits in failure.inputs:
            f.write("%s %s\n" % (n, bits))
    binp = os.path.join(outdir, "replay.bin")
    cmd = ["gcc", "-g", "-O0", "-w", "-fsanitize=address,undefined", "-fno-sanitize-recover=undefined",
           "-DVERIF_NATIVE", "-D" + core.GUARD]
    if job.ndebug:
        cmd.append("-DNDEBUG")
    for d in job.defines:
        cmd.append("-D" + d)
    cmd += core.include_flags(outdir)
    cmd.append(os.path.join(core.VERIF, "harness", job.harness))
    for s in job.sources:
        cmd.append(s if os.path.isabs(s) else os.path.join(core.REPO, s))
    cmd += [os.path.join(core.VERIF, "lib", "native_main.c"), "-DVERIF_ENTRY_FN=" + job.entry]
    cmd += ["-o", binp, "-lpthread"]
    with open(os.path.join(outdir, "replay_cmd.txt"), "w") as f:
        f.write(" ".join(cmd) + "\nVERIF_REPLAY_INPUTS=%s VERIF_ENTRY=%s %s\n" % (inp, job.entry, binp))
    p = subprocess.run(cmd, stdout=subprocess.PIPE, stderr=subprocess.STDOUT, text=True)
    if p.returncode != 0:
        # CBMC tolerates unreachable undefined functions; the native linker does not:
        # give every undefined symbol an aborting body and link again.
        und = sorted(set(re.findall(r"undefined reference to `([A-Za-z_0-9]+)'", p.stdout)))
        if und:
            sf = os.path.join(outdir, "undef_stubs.c")
            with open(sf, "w") as f:
                f.write("#include <stdlib.h>\n#include <stdio.h>\n")
                for u in und:
                    f.write('void %s(void){fprintf(stderr,"REPLAY: undefined function %s reached\\n");abort();}\n' % (u, u))
            p = subprocess.run(cmd + [sf], stdout=subprocess.PIPE, stderr=subprocess.STDOUT, text=True)
    if p.returncode != 0:
        status = "native-build-failed"
        out = p.stdout[-3000:]
    else:
        env = dict(os.environ, VERIF_REPLAY_INPUTS=inp, VERIF_ENTRY=job.entry,
                   ASAN_OPTIONS="detect_leaks=0:abort_on_error=0", UBSAN_OPTIONS="print_stacktrace=1")
        try:
            r = subprocess.run([binp], stdout=subprocess.PIPE, stderr=subprocess.STDOUT, text=True,
                               env=env, timeout=120)
            out = r.stdout[-6000:]
            if r.returncode == 42:
                status = "reproduced-assertion"
            elif r.returncode == 77:
                status = "diverged"
            elif "AddressSanitizer" in out or "runtime error" in out or r.returncode < 0 or r.returncode == 134:
                status = "reproduced-memory-or-abort"
            elif r.returncode == 0:
                status = "not-reproduced"
            else:
                status = "exit-%d" % r.returncode
        except subprocess.TimeoutExpired:
            status, out = "native-timeout(hang?)", ""
        try:
            os.remove(binp)
        except OSError:
            pass
    with open(os.path.join(outdir, "native_replay.txt"), "w") as f:
        f.write("status: %s\n%s\n" % (status, out))
    shutil.rmtree(os.path.join(outdir, "geninc"), ignore_errors=True)
    return status


def replay_dir(pid, d):
    """./check Cxx --replay <dir>: re-run a stored counterexample natively."""
    meta = json.load(open(os.path.join(d, "meta.json")))
    job = core.Job(**meta["job"])
    fl = core.Failure(**meta["failure"])
    st = native_replay(job, fl, d)
    print("replay of %s / %s: %s" % (pid, job.name, st))
    print(open(os.path.join(d, "native_replay.txt")).read()[-3000:])
    return 1 if st.startswith("reproduced") else 0


def decide(pid, tier, seed, mod, jobs, work, t0, partial=False, write_evidence=True):
    known = [e for e in load_known(pid) if e.get("status") == "known"]
    # twin jobs with the known findings' input classes excluded
    twins = {}
    alljobs = list(jobs)
    for j in jobs:
        ex = [e for e in known if re.search(e.get("job", ".*"), j.name) and e.get("exclude_define")]
        if ex and j.expect == "pass":
            t = copy.deepcopy(j)
            t.name = j.name + "__excl"
            t.defines = list(j.defines) + sorted(set(e["exclude_define"] for e in ex))
            twins[j.name] = len(alljobs)
            alljobs.append(t)
    logdir = os.path.join(work, "logs")
    results = core.run_jobs(alljobs, work, keep_log_dir=logdir, seed=seed)
    by_name = {r.job.name: r for r in results}

    violations = []      # (job, failure)
    inconclusive = []
    known_hits = []
    n_obl = n_dis = 0
    nonvacuous = 0
    samples = []
    fn_set = set()
    solver_s = symex_s = 0.0
    rss = 0
    for r in results[:len(jobs)]:
        j = r.job
        fn_set.update(r.functions)
        solver_s += r.solver_s
        symex_s += r.symex_s
        rss = max(rss, r.rss_mb)
        real_fail = [f for f in r.failures if not is_witness(f)]
        wit_fail = [f for f in r.failures if is_witness(f)]
        status = r.verdict
        if r.verdict in ("INCONCLUSIVE", "BUILD_ERROR"):
            inconclusive.append((j, r.verdict + ": " + r.detail[-600:]))
        elif j.expect == "fail":
            # explicit reachability witness job: must fail
            if r.verdict != "FAILED":
                inconclusive.append((j, "VACUITY: witness job did not fail"))
            else:
                nonvacuous += 1
                status = "WITNESS-REACHED"
        else:
            n_obl += r.n_props - len(wit_fail)
            if not real_fail:
                n_dis += r.n_props - len(wit_fail)
                if r.n_props == 0:
                    inconclusive.append((j, "no properties generated"))
                elif not wit_fail and not getattr(mod, "NO_WITNESS", False) and "nowitness" not in j.flags:
                    inconclusive.append((j, "VACUITY: end-of-harness witness not reachable"))
                    status = "VACUOUS"
                else:
                    nonvacuous += 1
                    status = "HOLDS"
            else:
                n_dis += r.n_props - len(wit_fail) - len(real_fail)
                # only unwinding assertions failed: the loop/recursion bound of the job was too small for this
                # tree -- that is "outside the bound", not a violation of the property (unless the job is one
                # whose subject is termination)
                if all(f.kind == "unwind" for f in real_fail) and "unwind-is-violation" not in j.flags_meta:
                    inconclusive.append((j, "BOUND: unwinding assertion(s) failed (%s): the job's unwinding bound does "
                                            "not cover this tree" % "; ".join(f.prop_id for f in real_fail[:3])))
                    status = "BOUND-EXCEEDED"
                    real_fail = []
                # known finding?
                unmatched = []
                hits = []
                for f in real_fail:
                    m = [e for e in known if re.search(e.get("job", ".*"), j.name)
                         and re.search(e.get("assert", "^$"), f.desc)]
                    if m:
                        hits.append((m[0], f))
                    else:
                        unmatched.append(f)
                if status == "BOUND-EXCEEDED":
                    pass
                elif not unmatched and j.name in twins:
                    tr = results[twins[j.name]]
                    treal = [f for f in tr.failures if not is_witness(f)]
                    if tr.verdict in ("INCONCLUSIVE", "BUILD_ERROR"):
                        inconclusive.append((tr.job, tr.verdict + ": " + tr.detail[-600:]))
                    elif treal:
                        for f in treal:
                            violations.append((tr.job, f))
                    else:
                        for e, f in hits:
                            known_hits.append((e, j, f))
                        status = "HOLDS-EXCEPT-KNOWN"
                        nonvacuous += 1
                else:
                    for f in (unmatched or real_fail):
                        violations.append((j, f))
                    status = "VIOLATED"
        samples.append({"job": j.name, "harness": j.harness, "entry": j.entry, "what": j.desc,
                        "bounds": j.bounds, "defines": j.defines, "unwind": j.unwind,
                        "unwindset": j.unwindset, "status": status,
                        "cbmc_properties": r.n_props, "failed": [f.desc for f in real_fail][:5],
                        "witnesses_reached": len(wit_fail),
                        "symex_s": round(r.symex_s, 2), "solver_s": round(r.solver_s, 2),
                        "wall_s": round(r.wall, 1), "ssa_steps": r.steps, "vccs": r.vccs,
                        "rss_mb": r.rss_mb, "stubs": j.stubs})

    # ---- output
    rc = 0
    printed_known = set()
    for e, j, f in known_hits:
        key = e.get("id", e.get("what"))
        if key in printed_known:
            continue
        printed_known.add(key)
        print("KNOWN-FINDING: property=%s %s: %s" % (pid, e.get("id", ""), e.get("what", f.desc)))
    vio_dirs = []
    if violations:
        rc = 1
        perjob = {}
        for j, f in violations:
            perjob.setdefault(j.name, (j, []))[1].append(f)
        for jn, (j, fl) in perjob.items():
            # prefer a harness-oracle failure that carries inputs as the representative
            fl_sorted = sorted(fl, key=lambda f: (0 if f.kind == "assertion" else 1, 0 if f.inputs else 1))
            f = fl_sorted[0]
            d = os.path.join(REPLAY_ROOT, pid, re.sub(r"[^A-Za-z0-9_.-]", "_", j.name))
            shutil.rmtree(d, ignore_errors=True)
            os.makedirs(d, exist_ok=True)
            if f.trace_file and os.path.exists(f.trace_file):
                shutil.copy(f.trace_file, os.path.join(d, "cbmc_trace.txt"))
            jd = core.dataclasses.asdict(j)
            fd = core.dataclasses.asdict(f)
            fd["trace_file"] = None
            json.dump({"property": pid, "job": jd, "failure": fd, "tier": tier,
                       "all_failed_assertions": [x.desc for x in fl]},
                      open(os.path.join(d, "meta.json"), "w"), indent=1)
            st = "not-attempted"
            if j.native_replay and f.inputs:
                try:
                    st = native_replay(j, f, d)
                except Exception as ex:  # pragma: no cover
                    st = "replay-error %r" % (ex,)
            for x in fl_sorted[:6]:
                print("  counterexample: job=%s assertion=\"%s\" (%s line %s)" % (j.name, x.desc, x.prop_id, x.line))
            if len(fl_sorted) > 6:
                print("  ... and %d more failed assertions in this job" % (len(fl_sorted) - 6))
            print("  native-replay=%s" % st)
            print("VIOLATION property=%s replay=%s" % (pid, d))
            vio_dirs.append(d)
    if inconclusive:
        for j, why in inconclusive:
            print("INCONCLUSIVE property=%s job=%s: %s" % (pid, j.name, why.replace("\n", " | ")[:700]))
        if rc == 0:
            rc = 3
    wall = time.time() - t0
    for s in samples:
        print("  [%s] %-40s props=%-4d symex=%.1fs solver=%.1fs wall=%.0fs rss=%dMB" %
              (s["status"], s["job"], s["cbmc_properties"], s["symex_s"], s["solver_s"], s["wall_s"],
               s["rss_mb"]))
    print("%s %s tier=%s: jobs=%d obligations=%d discharged=%d nonvacuous=%d known=%d violations=%d "
          "inconclusive=%d wall=%.0fs" % (pid, "OK" if rc == 0 else ("VIOLATED" if rc == 1 else "INCONCLUSIVE"),
                                         tier, len(jobs), n_obl, n_dis, nonvacuous, len(printed_known),
                                         len(vio_dirs), len(inconclusive), wall))
    if write_evidence and not partial:
        info = getattr(mod, "INFO", {})
        ev = {
            "property_id": pid,
            "tier": tier,
            "seed": seed,
            "level": "model_checking",
            "coverage": {
                "evaluations": max(1, n_obl),
                "distinct_nontrivial": max(0, nonvacuous),
                "rule": ("bounded symbolic model checking with CBMC 6.11: 'evaluations' counts the solver "
                         "obligations (CBMC properties: harness oracles, unwinding assertions and, where enabled, "
                         "built-in memory-safety checks) decided over ALL symbolic inputs within the stated "
                         "bounds; 'distinct_nontrivial' counts distinct harness queries whose end-of-harness "
                         "reachability witness was confirmed by the solver (non-vacuous) and whose obligations "
                         "were all discharged"),
                "samples": samples,
                "obligations": n_obl,
                "discharged": n_dis,
                "queries": len(results),
                "functions_encoded": sorted(fn_set),
                "solver_s": round(solver_s, 2),
                "symex_s": round(symex_s, 2),
                "peak_rss_mb": rss,
                "checker_cmd": "cbmc <job>.gb --function <entry> --unwinding-assertions --drop-unused-functions "
                               "[--no-standard-checks] --unwind/--unwindset per job (see samples)",
                "outside_bounds": info.get("outside", ""),
                "known_findings_seen": sorted(printed_known),
                "inconclusive": [j.name for j, _ in inconclusive],
                "exhaustive": False,
            },
            "assumptions": info.get("assumptions", []),
            "wall_s": round(wall, 2),
            "violations": len(vio_dirs),
        }
        os.makedirs(EVID_DIR, exist_ok=True)
        tmp = os.path.join(EVID_DIR, pid + ".json.tmp")
        json.dump(ev, open(tmp, "w"), indent=1)
        os.replace(tmp, os.path.join(EVID_DIR, pid + ".json"))
    # keep logs of anything that went wrong for debugging
    if rc != 0 or os.environ.get("VERIF_KEEP_LOGS"):
        dbg = os.path.join(core.VERIF, ".work", "lastlogs_" + pid)
        shutil.rmtree(dbg, ignore_errors=True)
        os.makedirs(dbg, exist_ok=True)
        for r in results:
            with open(os.path.join(dbg, r.job.name + ".log"), "w") as f:
                f.write(r.log)
    return rc
