"""Core of the solver-based checking machinery for rtrlib.

Every check is a set of *jobs*.  A job = one harness translation unit (which
#includes / links the real rtrlib C sources from /repo's current working tree),
compiled with goto-cc, optionally post-processed with goto-instrument
(--replace-calls for contract stubs of static functions), and decided by CBMC
(bounded symbolic execution + SAT/SMT).  A job either must PASS (all assertions,
incl. unwinding assertions, hold for every input within the bounds) or must FAIL
(reachability witness: guards against vacuous passes).

Nothing is cached between runs: the goto binaries are rebuilt from /repo on
every invocation and the scratch directory is removed afterwards.
"""
import concurrent.futures as cf
import dataclasses
import json
import os
import re
import resource
import shutil
import subprocess
import sys
import time
from dataclasses import dataclass, field
from typing import Dict, List, Optional, Tuple

VERIF = os.path.dirname(os.path.dirname(os.path.abspath(__file__)))
REPO = os.environ.get("VERIF_REPO", "/repo")
WORK_ROOT = os.path.join(VERIF, ".work")
GUARD = "RTRLIB_VERIF"

NCPU = os.cpu_count() or 4

# children run in their own process groups (so a timeout can kill cbmc + /usr/bin/time together);
# make sure they do not outlive the driver when it is terminated itself
_CHILDREN = set()


def _kill_children(*_a):
    for p in list(_CHILDREN):
        try:
            os.killpg(p.pid, 9)
        except Exception:
            pass
    if _a:
        os._exit(143)


import atexit
import signal
atexit.register(_kill_children)
for _sig in (signal.SIGTERM, signal.SIGINT, signal.SIGHUP):
    try:
        signal.signal(_sig, _kill_children)
    except Exception:
        pass


@dataclass
class Job:
    name: str
    harness: str                      # file under /verif/harness
    entry: str = "harness"
    defines: List[str] = field(default_factory=list)
    unwind: Optional[int] = None
    unwindset: Dict[str, int] = field(default_factory=dict)
    flags: List[str] = field(default_factory=list)
    expect: str = "pass"              # "pass" | "fail" (witness twin)
    timeout: int = 900
    mem_gb: int = 10
    object_bits: Optional[int] = None
    replace_calls: List[Tuple[str, str]] = field(default_factory=list)
    ndebug: bool = True               # the shipped build (RelWithDebInfo) defines NDEBUG
    sources: List[str] = field(default_factory=list)   # extra .c files (abs or /repo-relative)
    memory_checks: bool = False       # True: CBMC 6 standard checks on
    extra_checks: List[str] = field(default_factory=list)
    desc: str = ""                    # what is symbolic / what is asserted, for the evidence file
    bounds: Dict[str, object] = field(default_factory=dict)
    stubs: List[str] = field(default_factory=list)
    weight: int = 1                   # rough cores/memory weight for the scheduler
    known_excl: List[str] = field(default_factory=list)   # -D macros that exclude known findings
    native_replay: bool = True
    solver: List[str] = field(default_factory=list)       # e.g. ["--sat-solver","cadical"]
    remove_bodies: List[str] = field(default_factory=list)  # goto-instrument --remove-function-body
    flags_meta: List[str] = field(default_factory=list)     # driver-level flags, e.g. 'unwind-is-violation'


@dataclass
class Failure:
    prop_id: str        # e.g. harness.assertion.3
    line: str
    desc: str
    kind: str           # "assertion" | "unwind" | "builtin"
    inputs: List[Tuple[str, str]] = field(default_factory=list)
    trace_file: Optional[str] = None


@dataclass
class JobResult:
    job: Job
    verdict: str        # "SUCCESS" | "FAILED" | "INCONCLUSIVE" | "BUILD_ERROR"
    failures: List[Failure] = field(default_factory=list)
    n_props: int = 0
    n_failed: int = 0
    wall: float = 0.0
    symex_s: float = 0.0
    solver_s: float = 0.0
    steps: int = 0
    vccs: int = 0
    rss_mb: int = 0
    functions: List[str] = field(default_factory=list)
    detail: str = ""
    log: str = ""
    cmd: str = ""


def _limit(mem_gb):
    def f():
        b = int(mem_gb * (1 << 30))
        try:
            resource.setrlimit(resource.RLIMIT_AS, (b, b))
        except Exception:
            pass
        os.setsid()
    return f


def ensure_repo_config(workdir):
    """rtrlib/config.h and rtrlib/rtrlib.h are cmake-generated (git-ignored).  If the
    tree has not been configured we provide the same content in a shadow include dir."""
    inc = os.path.join(workdir, "geninc")
    os.makedirs(os.path.join(inc, "rtrlib"), exist_ok=True)
    cfg = os.path.join(REPO, "rtrlib", "config.h")
    if not os.path.exists(cfg):
        with open(os.path.join(inc, "rtrlib", "config.h"), "w") as f:
            f.write("#ifndef RTR_CONFIG_H\n#define RTR_CONFIG_H\n#define RTRLIB_BGPSEC_ENABLED\n#endif\n")
    # rtrlib/rtrlib.h is generated as well (rtrlib.h.cmake); same content with tree-relative includes
    if not os.path.exists(os.path.join(REPO, "rtrlib", "rtrlib.h")):
        with open(os.path.join(inc, "rtrlib", "rtrlib.h"), "w") as f:
            f.write("#ifndef RTRLIB_H\n#define RTRLIB_H\n#define RTRLIB_VERSION_MAJOR 0\n#define RTRLIB_VERSION_MINOR 8\n"
                    "#define RTRLIB_VERSION_PATCH 0\n#include \"rtrlib/config.h\"\n"
                    + "".join('#include "rtrlib/%s"\n' % h for h in (
                        "lib/alloc_utils.h", "lib/ip.h", "lib/ipv4.h", "lib/ipv6.h", "pfx/pfx.h", "rtr/rtr.h", "rtr_mgr.h",
                        "spki/spkitable.h", "transport/tcp/tcp_transport.h", "transport/transport.h"))
                    + "#ifdef RTRLIB_BGPSEC_ENABLED\n#include \"rtrlib/bgpsec/bgpsec.h\"\n#endif\n#endif\n")
    return inc


def include_flags(workdir):
    inc = ensure_repo_config(workdir)
    return ["-I", REPO, "-I", os.path.join(REPO, "third-party"), "-I", inc, "-I", os.path.join(inc, "rtrlib"),
            "-I", os.path.join(VERIF, "lib"), "-I", os.path.join(VERIF, "harness")]


def build(job: Job, workdir: str) -> Tuple[Optional[str], str]:
    os.makedirs(workdir, exist_ok=True)
    out = os.path.join(workdir, job.name + ".gb")
    cmd = ["goto-cc", "-o", out, "-D" + GUARD, "-DVERIF_CBMC"]
    if job.ndebug:
        cmd.append("-DNDEBUG")
    for d in job.defines:
        cmd.append("-D" + d)
    cmd += include_flags(workdir)
    cmd.append(os.path.join(VERIF, "harness", job.harness))
    for s in job.sources:
        cmd.append(s if os.path.isabs(s) else os.path.join(REPO, s))
    p = subprocess.run(cmd, stdout=subprocess.PIPE, stderr=subprocess.STDOUT, text=True)
    log = "$ " + " ".join(cmd) + "\n" + p.stdout
    if p.returncode != 0 or not os.path.exists(out):
        return None, log
    if job.remove_bodies:
        out2 = out[:-3] + ".rb.gb"
        cmd = ["goto-instrument"]
        for f_ in job.remove_bodies:
            cmd += ["--remove-function-body", f_]
        cmd += [out, out2]
        p = subprocess.run(cmd, stdout=subprocess.PIPE, stderr=subprocess.STDOUT, text=True)
        log += "$ " + " ".join(cmd) + "\n" + p.stdout[-2000:]
        if p.returncode != 0:
            return None, log
        out = out2
    for k, (a, b) in enumerate(job.replace_calls):
        out2 = out[:-3] + ".rc%d.gb" % k
        cmd = ["goto-instrument", "--replace-calls", "%s:%s" % (a, b), out, out2]
        p = subprocess.run(cmd, stdout=subprocess.PIPE, stderr=subprocess.STDOUT, text=True)
        log += "$ " + " ".join(cmd) + "\n" + p.stdout[-2000:]
        if p.returncode != 0 or not os.path.exists(out2):
            return None, log
        out = out2
    return out, log


def list_functions(gb: str, entry: str) -> List[str]:
    """Functions with a body that are reachable from the entry in the static call graph (what CBMC encodes after
    --drop-unused-functions; callees reached only through function pointers are added by CBMC's own
    function-pointer removal and are not listed here)."""
    try:
        p = subprocess.run(["goto-instrument", "--list-goto-functions", gb],
                           stdout=subprocess.PIPE, stderr=subprocess.DEVNULL, text=True, timeout=120)
        has_body = set()
        for l in p.stdout.splitlines():
            l = l.strip()
            if not l or l.startswith("Reading"):
                continue
            name = l.split()[0]
            if "body not available" not in l:
                has_body.add(name)
        p = subprocess.run(["goto-instrument", "--call-graph", gb],
                           stdout=subprocess.PIPE, stderr=subprocess.DEVNULL, text=True, timeout=120)
        edges = {}
        for l in p.stdout.splitlines():
            if " -> " in l:
                a_, b_ = l.strip().split(" -> ", 1)
                edges.setdefault(a_.strip(), set()).add(b_.strip())
        seen, todo = {entry}, [entry]
        while todo:
            f = todo.pop()
            for g in edges.get(f, ()):
                if g not in seen:
                    seen.add(g)
                    todo.append(g)
        return sorted(f for f in seen if f in has_body and not f.startswith("__CPROVER"))
    except Exception:
        return []


_RES = re.compile(r"^\[(?P<id>[^\]]+)\] (?:line (?P<line>\d+) )?(?P<desc>.*): (?P<st>SUCCESS|FAILURE|UNKNOWN|ERROR)$")
_INPUT = re.compile(r"^\s+INPUT (\S+): .*\(([01 ]+)\)\s*$")


def parse_output(txt: str):
    props = []
    for l in txt.splitlines():
        m = _RES.match(l.strip())
        if m:
            props.append((m.group("id"), m.group("line") or "", m.group("desc"), m.group("st")))
    traces = {}
    cur = None
    for l in txt.splitlines():
        if l.startswith("Trace for "):
            cur = l[len("Trace for "):].rstrip(":").strip()
            traces[cur] = []
            continue
        if cur is not None:
            m = _INPUT.match(l)
            if m:
                traces[cur].append((m.group(1), m.group(2).replace(" ", "")))
    verdict = None
    if "VERIFICATION SUCCESSFUL" in txt:
        verdict = "SUCCESS"
    elif "VERIFICATION FAILED" in txt:
        verdict = "FAILED"
    stats = {}
    m = re.search(r"Runtime Symex: ([0-9.e+-]+)s", txt)
    if m:
        stats["symex"] = float(m.group(1))
    stats["solver"] = sum(float(x) for x in re.findall(r"Runtime Solver: ([0-9.e+-]+)s", txt))
    m = re.search(r"size of program expression: (\d+) steps", txt)
    if m:
        stats["steps"] = int(m.group(1))
    m = re.search(r"Generated (\d+) VCC\(s\), (\d+) remaining", txt)
    if m:
        stats["vccs"] = int(m.group(2))
    return verdict, props, traces, stats


def cbmc_cmd(job: Job, gb: str, trace=True) -> List[str]:
    cmd = ["cbmc", gb, "--function", job.entry, "--drop-unused-functions", "--unwinding-assertions",
           "--verbosity", "8"]
    if job.unwind is not None:
        cmd += ["--unwind", str(job.unwind)]
    if job.unwindset:
        cmd += ["--unwindset", ",".join("%s:%d" % kv for kv in job.unwindset.items())]
    if not job.memory_checks:
        cmd += ["--no-standard-checks", "--unwinding-assertions"]
    else:
        cmd += ["--no-malloc-may-fail"]
    cmd += job.extra_checks
    if job.object_bits:
        cmd += ["--object-bits", str(job.object_bits)]
    if trace:
        cmd += ["--trace"]
    cmd += (job.solver or os.environ.get('VERIF_SOLVER', '').split())
    cmd += job.flags
    return cmd


def run_job(job: Job, workdir: str, keep_log_dir: Optional[str] = None) -> JobResult:
    t0 = time.time()
    gb, blog = build(job, workdir)
    if gb is None:
        return JobResult(job, "BUILD_ERROR", detail=blog[-4000:], wall=time.time() - t0, log=blog)
    fns = list_functions(gb, job.entry)
    dev_cap = int(os.environ.get('VERIF_DEV_TIMEOUT', '1000000'))
    # solver portfolio: MiniSat (CBMC's default) occasionally stalls for tens of minutes on a formula that
    # CaDiCaL decides in two (and vice versa).  Unless the job pins a solver, the default gets a third of
    # the budget and CaDiCaL the full budget afterwards; the evidence records which one decided.
    attempts = [(job.solver, job.timeout)]
    if not job.solver and not os.environ.get('VERIF_SOLVER'):
        attempts = [([], max(180, job.timeout // 4)), (["--sat-solver", "cadical"], job.timeout)]
    outp = gb + ".out"
    verdict_detail = ""
    for (solver, budget) in attempts:
        j2 = job if solver == job.solver else dataclasses.replace(job, solver=solver)
        cmd = cbmc_cmd(j2, gb)
        tcmd = ["/usr/bin/time", "-f", "MAXRSS_KB=%M", "-o", gb + ".time"] + cmd
        verdict_detail = ""
        with open(outp, "w") as fo:
            try:
                p = subprocess.Popen(tcmd, stdout=fo, stderr=subprocess.STDOUT, preexec_fn=_limit(job.mem_gb))
                _CHILDREN.add(p)
                try:
                    p.wait(timeout=min(budget, dev_cap))
                except subprocess.TimeoutExpired:
                    try:
                        os.killpg(p.pid, 9)
                    except Exception:
                        p.kill()
                    p.wait()
                    verdict_detail = "timeout after %ds (%s)" % (min(budget, dev_cap), " ".join(solver) or "default solver")
                _CHILDREN.discard(p)
            except Exception as e:  # pragma: no cover
                verdict_detail = "spawn error %r" % (e,)
        if not verdict_detail.startswith("timeout"):
            break
    txt = open(outp, errors="replace").read()
    rss = 0
    try:
        m = re.search(r"MAXRSS_KB=(\d+)", open(gb + ".time").read())
        if m:
            rss = int(m.group(1)) // 1024
    except Exception:
        pass
    verdict, props, traces, stats = parse_output(txt)
    res = JobResult(job, "INCONCLUSIVE", wall=time.time() - t0, functions=fns, rss_mb=rss,
                    cmd=" ".join(cmd))
    res.symex_s = stats.get("symex", 0.0)
    res.solver_s = stats.get("solver", 0.0)
    res.steps = stats.get("steps", 0)
    res.vccs = stats.get("vccs", 0)
    res.n_props = len(props)
    res.log = blog + "\n$ " + " ".join(cmd) + "\n" + txt[-20000:]
    if verdict_detail:
        res.detail = verdict_detail
        return res
    if verdict is None:
        res.detail = "no verdict from cbmc (rc=%s): %s" % (p.returncode, txt[-1500:])
        return res
    fails = [x for x in props if x[3] != "SUCCESS"]
    res.n_failed = len(fails)
    if verdict == "SUCCESS" and not fails:
        res.verdict = "SUCCESS"
        return res
    res.verdict = "FAILED"
    for (pid, line, desc, st) in fails:
        kind = "assertion"
        if "unwind" in pid or "unwinding assertion" in desc or "recursion unwinding" in desc:
            kind = "unwind"
        elif ".assertion." not in pid:
            kind = "builtin"
        f = Failure(pid, line, desc, kind, inputs=traces.get(pid, []))
        res.failures.append(f)
    if keep_log_dir:
        os.makedirs(keep_log_dir, exist_ok=True)
        tf = os.path.join(keep_log_dir, job.name + ".cbmc.txt")
        with open(tf, "w") as f:
            f.write("$ " + " ".join(cmd) + "\n")
            # keep the file small: result lines + traces (no symex chatter)
            keep = False
            for l in txt.splitlines():
                if l.startswith("** Results:"):
                    keep = True
                if keep:
                    f.write(l + "\n")
        for fl in res.failures:
            fl.trace_file = tf
    return res


def run_jobs(jobs: List[Job], workdir: str, keep_log_dir=None, max_parallel=None, seed=0) -> List[JobResult]:
    """Run jobs in parallel.  Weighted so that sum(weight) <= cores."""
    if max_parallel is None:
        max_parallel = NCPU
    order = list(range(len(jobs)))
    # heavy jobs first (longest-processing-time first); seed only rotates ties
    order.sort(key=lambda i: (-jobs[i].weight, -jobs[i].timeout, (i + seed) % max(1, len(jobs))))
    results: Dict[int, JobResult] = {}
    running = {}
    used = 0
    pending = list(order)
    with cf.ThreadPoolExecutor(max_workers=max_parallel) as ex:
        while pending or running:
            started = False
            for i in list(pending):
                w = min(jobs[i].weight, max_parallel)
                if used + w <= max_parallel:
                    fut = ex.submit(run_job, jobs[i], os.path.join(workdir, "j%d" % i), keep_log_dir)
                    running[fut] = (i, w)
                    used += w
                    pending.remove(i)
                    started = True
            if not running:
                continue
            done, _ = cf.wait(list(running.keys()), return_when=cf.FIRST_COMPLETED)
            for fut in done:
                i, w = running.pop(fut)
                used -= w
                try:
                    results[i] = fut.result()
                except Exception as e:  # pragma: no cover
                    results[i] = JobResult(jobs[i], "INCONCLUSIVE", detail="driver exception %r" % (e,))
                # free scratch space of finished job right away
                shutil.rmtree(os.path.join(workdir, "j%d" % i), ignore_errors=True)
    return [results[i] for i in range(len(jobs))]
