"""C19 -- address text conversion round-trips and agrees with the platform parser."""
from engine import core

INFO = {
    "outside": 'arbitrary strings longer than N characters; formatter round trip for non-zero groups of 3-4 hex digits or mixed digit counts (decided per layout class: zero-group mask x 1-2 digits); parser: compressed forms with mixed digit counts per group',
    "assumptions": ['libc models for the four format strings'],
}
MANIFEST = {
    "text": 'Real ipv4.c/ipv6.c/ip.c with exact models of the four libc format strings: all 2^32 IPv4 addresses round-trip and never write beyond the length told; the IPv6 parser is a function of the text only (two runs from different uninitialised stacks agree) for every string of <=10 characters; every such string the reference inet_pton grammar accepts is accepted with the same bits; to_str refuses short buffers; every compressed text form (the double colon at every position and length, incl. forms no formatter emits) with symbolic digits parses to the reference result; the IPv6 formatter: for every layout class (which groups are zero: 20 masks quick / all 256 thorough; 1 hex digit per other group, 2 for four masks) the text produced for ANY address of the class parses back to the same address with the real parser and with the reference grammar.',
    "note": "inet_pton itself cannot be encoded (glibc, no source): agreement is with a reference recogniser that follows glibc's algorithm; it and the printf/sscanf models are differential-tested against glibc by scripts/c19_selftest (oracle validation, not the deciding step).",
    "technique": 'CBMC on real ipv6.c/ipv4.c with libc format models and a reference inet_pton grammar',
}
IP_SOURCES = ["rtrlib/lib/ip.c", "rtrlib/lib/ipv4.c", "rtrlib/lib/ipv6.c", "rtrlib/lib/utils.c", "rtrlib/lib/convert_byte_order.c"]
IP_STUBS = ["snprintf/sprintf/sscanf/strchr: exact models of the four format strings used by ipv4.c/ipv6.c (checked against glibc "
            "by scripts/c19_selftest)", "reference parser ref_pton6/ref_pton4 = glibc inet_pton algorithm (checked against inet_pton "
            "by the same self-test); inet_pton itself cannot be encoded"]


def ijob(name, entry, strn, timeout=900, extra=None, mem_checks=False, weight=1):
    us = {"lrtr_ipv6_str_to_addr.0": 6, "lrtr_ipv6_str_to_addr.1": strn + 2, "lrtr_ipv6_str_to_addr.2": 9,
          "lrtr_ipv6_str_to_addr.3": 9, "lrtr_ipv6_str_to_addr.4": 5, "lrtr_ipv6_addr_to_str.0": 9, "lrtr_ipv6_addr_to_str.1": 9,
          "ref_pton6.0": 17, "ref_pton6.1": strn + 2, "ref_pton6.2": 17, "ref_pton6.3": 9, "ref_pton4.0": strn + 2,
          "__isoc99_sscanf.0": strn + 2, "__isoc99_sscanf.1": 4, "__isoc99_sscanf.2": 5, "sprintf.0": 7, "sprintf.1": 5, "snprintf.0": 5, "put_dec_u8.0": 10,
          "strchr.0": strn + 2, "nd_string.0": strn + 2}
    for i in range(8):
        for h in ("harness_v6_bounds", "harness_v6_roundtrip", "harness_v6_reference", "harness_v6_determinism", "harness_v4_roundtrip", "harness_v6_compressed"):
            us["%s.%d" % (h, i)] = 66
    return core.Job(name=name, harness="ipstr.c", entry=entry, defines=["STRN=%d" % strn] + (extra or []), unwind=strn + 4, unwindset=us,
                    timeout=timeout, mem_gb=12, sources=IP_SOURCES, object_bits=9, memory_checks=mem_checks, weight=weight,
                    desc="%s (strings up to %d characters / all address bits symbolic)" % (entry, strn),
                    bounds={"string_chars": strn}, stubs=IP_STUBS)


def precheck():
    """Oracle validation (not the deciding step): reference parsers and libc models vs glibc, natively."""
    import os, subprocess
    os.makedirs(core.WORK_ROOT, exist_ok=True)
    exe = os.path.join(core.WORK_ROOT, "c19_selftest_%d" % os.getpid())
    p = subprocess.run(["gcc", "-O1", "-w", "-I", core.REPO, "-I", os.path.join(core.VERIF, "lib"), "-o", exe,
                        os.path.join(core.VERIF, "scripts", "c19_selftest.c")], stdout=subprocess.PIPE, stderr=subprocess.STDOUT, text=True)
    if p.returncode != 0:
        return False, "selftest does not compile: " + p.stdout[-500:]
    r = subprocess.run([exe], stdout=subprocess.PIPE, stderr=subprocess.STDOUT, text=True)
    try:
        os.remove(exe)
    except OSError:
        pass
    return r.returncode == 0, r.stdout[-500:]


def hexplan(zmask, d):
    """digits of the successive "%x" conversions of the canonical text form (first longest run of >= 2 zero groups
    compressed; zero groups outside it print "0") for an address whose zero groups are given by zmask"""
    zero = [(zmask >> (7 - i)) & 1 for i in range(8)]
    best, cur = (-1, 0), None
    for i in range(8):
        if zero[i]:
            if cur is None:
                cur = [i, 0]
            cur[1] += 1
            if cur[1] > best[1]:
                best = (cur[0], cur[1])
        else:
            cur = None
    if best[1] < 2:
        best = (-1, 0)
    plan, i = [], 0
    while i < 8:
        if i == best[0]:
            i += best[1]
            continue
        plan.append(1 if zero[i] else d)
        i += 1
    return plan or [1]


def fjob(zmask, d, k, timeout=1500):
    strn = 16 if d == 1 else (24 if d == 2 else 40)
    j = ijob("v6_format_z%02x_d%d_k%d" % (zmask, d, k), "harness_v6_format", strn, timeout=timeout,
             extra=["ZMASK=0x%02x" % zmask, "FDIG=%d" % d, "KBIT=%d" % k, "HEXPLAN=" + ",".join(str(x) for x in hexplan(zmask, d))])
    j.harness = "ipfmt.c"
    j.unwindset.update({"ipstr_sprintf.0": 7, "ipstr_sprintf.1": 5})
    for i in range(8):
        j.unwindset["harness_v6_format.%d" % i] = 66
    j.desc = ("real lrtr_ipv6_addr_to_str then real lrtr_ipv6_str_to_addr + reference inet_pton grammar: text parses back to the same "
              "address, for ALL addresses of one layout class: zero groups = mask 0x%02x (bit 0x80>>i = group i), every other group a "
              "free value with exactly %d hex digit(s) and bit %d of its leading digit set" % (zmask, d, k))
    j.bounds = {"zero_group_mask": "0x%02x" % zmask, "hex_digits_per_nonzero_group": d, "forced_bit_of_leading_digit": k}
    j.stubs = IP_STUBS + ["sprintf(\"%x\") model takes the digit count of each conversion from the driver's plan for the canonical form and "
                          "ASSUMES the value fits it (a formatter that chooses another layout makes the job vacuous = INCONCLUSIVE)"]
    return j


# layout classes of the formatter jobs: no zero group, all zero, single zeros (never compressed), runs at the start / middle /
# end, two runs (equal: first wins; longer second), a compressed run followed by a lone trailing zero, embedded-IPv4 forms
FMT_QUICK = [0x00, 0xff, 0x01, 0x80, 0x10, 0x03, 0xc0, 0x18, 0x66, 0x36, 0xc7, 0x61, 0x39, 0x8e, 0x7e, 0xfe, 0xfc, 0xfd, 0x7f, 0xa5]
SHAPES_QUICK = [0x00, 0xff, 0x3c, 0xfe, 0x7f, 0x81]
DG2 = set()  # filled after measurement


def jobs(tier):
    n = 10  # (n = 16 gave no verdict in 25 min per job; the compressed-form jobs below reach the long strings instead)
    J = [ijob("v4_roundtrip", "harness_v4_roundtrip", 16, mem_checks=False),
         ijob("v6_bounds", "harness_v6_bounds", 8, mem_checks=True),
         ijob("v6_determinism_n%d" % n, "harness_v6_determinism", n, timeout=3000 if tier == "thorough" else 900),
         ijob("v6_reference_n%d" % n, "harness_v6_reference", n, timeout=3000 if tier == "thorough" else 900)]
    # every position/length of "::" (incl. "::" for a single group, which no formatter emits) and the form without "::"
    forms = [(0, 0)] + [(p, l) for p in range(8) for l in range(1, 9 - p)]
    if tier == "quick":
        forms = [(0, 0), (0, 8)] + [(p, 1) for p in range(8)] + [(0, 2), (3, 2), (6, 2), (1, 6), (0, 7), (1, 7), (2, 3)]
    for (pos, ln) in forms:
        # digits per group: 1 everywhere; 4 only for "::" and "::x" (the other full-width forms run
        # out of 12 GB: measured) -- thorough adds 2 digits per group for the forms in DG2
        dgs = (1,) if tier == "quick" else ((1, 4) if (ln >= 7 and pos == 0) else ((1, 2) if (pos, ln) in DG2 else (1,)))
        for dg in dgs:
            J.append(ijob("v6_compressed_p%d_l%d_d%d" % (pos, ln, dg), "harness_v6_compressed", 16 if dg == 1 else 40,
                          extra=["DC_POS=%d" % pos, "DC_LEN=%d" % ln, "DC_DIGITS=%d" % dg], timeout=900))
    # the formatter: text -> address round trip per layout class (harness/ipfmt.c)
    masks = FMT_QUICK if tier == "quick" else list(range(256))
    for z in masks:
        J.append(fjob(z, 1, 0))
    for z in ([0x61, 0x18] if tier == "quick" else FMT_QUICK):
        for k in (1, 2, 3):
            J.append(fjob(z, 1, k))
    if tier == "thorough":
        for z in (0x61, 0x18, 0xfe, 0xc0):
            J.append(fjob(z, 2, 0, timeout=3000))
    # the monolithic IPv6 format->parse round trip with symbolic layout: NOT part of either tier (no verdict within 12 GB / 10 min per shape: the
    # formatter's output positions depend on the data); kept for experiments with VERIF_C19_ROUNDTRIP=1
    import os
    shapes = [] if not os.environ.get("VERIF_C19_ROUNDTRIP") else sorted(set(SHAPES_QUICK + [0xc0, 0x03, 0x18, 0xf0, 0x0f, 0xaa, 0x55, 0xfc, 0xf8, 0x3f, 0x7e, 0xfd, 0xe7, 0xbd]))
    for z in shapes:
        for dg in (1, 4) if tier == "quick" else (1, 2, 3, 4):
            J.append(ijob("v6_roundtrip_z%02x_d%d" % (z, dg), "harness_v6_roundtrip", 46,
                          extra=["ZMASK=0x%02x" % z, "RT_DIGITS=%d" % dg], timeout=2400))
    return J
