"""C18 -- allocation failure is contained; the configured allocator is used consistently."""
from engine import core
from . import C02
from .sync_common import *

INFO = {
    "outside": 'router-key table / tommy grow step under allocation failure; more than one failure per operation',
    "assumptions": ['as C02'],
}
MANIFEST = {
    "text": 'The size-class allocator (installed through the public lrtr_set_alloc_functions, or standing in for lrtr_malloc/realloc/free) fails the k-th request for a symbolic k. (a) Each single prefix-table operation from an arbitrary Inv-valid table reports an error without partial effect or succeeds completely (real trie-pfx.c). (b) Router-key table: histories on the real ht-spkitable.c + tommyhashlin with the k-th request failing (table init, entry, bucket segment of a grow step, result arrays), CBMC pointer checks on, and a final spki_table_free after which nothing may remain allocated from the configured allocator; the hash container\'s own grow step with a failing segment allocation from an arbitrary valid state. (c) A synchronisation: the real rtr_sync on exchange skeletons with the k-th allocation (PDU stores and their growth, shadow tables) failing: error reported, the cache\'s records untouched or purged, every block released, no NULL dereference. (d) pfx_table_free returns every block (ledger).',
    "note": 'Found and fixed here: F12 (entries freed with libc free), F13a (grow step used a failed segment allocation), F13b (spki_table_init could not report a failed bucket allocation), F14 (failed shrinking realloc made remove-by-source stop half-way). One failure per run; router-key histories of <= 2 operations (3 in thorough); sync skeletons listed in the evidence.',
    "technique": 'CBMC with a symbolic (or driver-enumerated) failing allocation index on real trie-pfx.c, ht-spkitable.c/tommyhashlin.c and rtr_sync + allocator ledger + pointer checks',
}


def jobs(tier):
    J = []
    for (nm, entry, td, te) in (("add", "harness_add", 1, 2), ("remove", "harness_remove", 1, 2), ("srcremove", "harness_src_remove", 0, 2)):
        j = C02.op_job("allocfail_%s_v4" % nm, entry, td, te, 4, 1500, prop="ASSERT_C18",
                       extra=["ALLOC_FAIL"] + (["TL_SHAPE=1", "TL_NRECS=2"] if nm == "srcremove" else []))
        j.desc = "k-th allocation fails (k symbolic, 0 = none): " + j.desc
        if nm in ("add", "remove"):
            j.solver = ["--sat-solver", "cadical"]  # MiniSat stalls on these two (portfolio measured: 375 s lost)
        J.append(j)
    # a node with three records: the only shape in which the undo branch of a failed shrink can misplace an element
    for nm, entry in (("remove", "harness_remove"), ("srcremove", "harness_src_remove")):
        if nm == "srcremove" and tier != "thorough":
            continue  # 17 min on the unchanged tree
        j = C02.op_job("allocfail_%s_v4_node3" % nm, entry, 0, 3, 4, 5400, prop="ASSERT_C18",
                       extra=["ALLOC_FAIL", "TL_SHAPE=1", "TL_NRECS=3"],
                       what="k-th allocation fails: %s on a single-node IPv4 trie with exactly 3 records (all values symbolic)" % entry)
        J.append(j)
    # ---- router-key table (real ht-spkitable.c + tommyhashlin): k-th allocation fails during a history; free returns everything
    from . import C10
    hist = [([1], None), ([1, 2], None)] + [([1, 1], k) for k in range(0, 5)]
    if tier == "thorough":
        # (measured: the failure-free and late-failure variants of these longer histories run out of memory or need > 20 min)
        hist += [([1, 4], k) for k in range(1, 5)] + [([1, 1, 1], k) for k in range(1, 4)]
    for seq, k in hist:
        # two-operation histories: the final lookups (whose own allocations fail in the one-operation job) are left out
        noq = ["QUERY_SKI_ONLY", "QUERY_ALL_ONLY"] if len(seq) > 1 else []
        j = C10.spki_job(list(seq), extra=["ALLOC_FAIL", "ASSERT_C18"] + noq + (["ALLOC_FAIL_AT=%d" % k] if k is not None else []),
                         name_prefix="spki_allocfail_", weight=3 if len(seq) > 1 else 1,
                         timeout=1500 if len(seq) < 3 else 5400, mem=12 if len(seq) < 3 else 28)
        if k is not None:
            j.name += "_k%d" % k
        j.extra_checks = ["--pointer-check"]
        j.desc = ("%s allocation request fails: every call reports an error or succeeds completely, no NULL "
                  "dereference (CBMC pointer checks on), final spki_table_free returns every block to the configured allocator: "
                  % ("the k-th (k symbolic, 0 = none)" if k is None else ("request number %d" % k if k else "no"))) + j.desc
        J.append(j)
    # the hash container's own allocation (a new bucket segment when a grow step starts) fails
    for b in (1, 2, 3):
        j = C10.hl_job(b, 0, 1, n=2, memory=True)
        j.name = "hashlin_allocfail_insert_b%d" % b
        j.defines = j.defines + ["ALLOC_FAIL"]
        j.desc = "the segment allocation of a starting grow step may fail: " + j.desc
        J.append(j)
    # ---- a synchronisation: the k-th allocation of the exchange (PDU stores, shadow tables) fails
    # (store increment 1: the PDU store is allocated by the first and grown by the second record of a kind)
    sk = [([CR, V4, EOD], 2), ([CR, V6, EOD], 2), ([CR, KEY, EOD], 2), ([CR, V4, V4, EOD], 1), ([CR, KEY, KEY, EOD], 1)]
    if tier == "thorough":
        sk += [([CR, V6, V6, EOD], 1), ([CR, V4, V4, V4, EOD], 2)]
    for skel, inc in sk:
        j = sync_job("ASSERT_C18", skel, extra=["ALLOC_FAIL"], timeout=2400, store_inc=inc)
        j.name = "allocfail_" + j.name + ("" if inc == 2 else "_inc%d" % inc)
        j.extra_checks = ["--pointer-check"]
        j.desc = ("k-th allocation request of the exchange fails (k symbolic, 0 = none; CBMC pointer checks on): the exchange reports an "
                  "error, the cache's records are untouched or purged, every block is released: ") + j.desc
        J.append(j)
    J.append(C02.op_job("ledger_free_v4_d1", "harness_free", 1, 2, 4, 1500, prop="ASSERT_C09", harness="pfx_notify.c"))
    return J
