"""C18 -- allocation failure is contained; the configured allocator is used consistently."""
from engine import core
from . import C02
from .sync_common import *

INFO = {
    "outside": 'router-key table / tommy grow step under allocation failure; more than one failure per operation',
    "assumptions": ['as C02'],
}
MANIFEST = {
    "text": 'The size-class allocator installed through the public lrtr_set_alloc_functions fails the k-th request for a symbolic k: each single prefix-table operation from an arbitrary Inv-valid table reports an error without invalid access, leaves no partial effect on any record and keeps Inv; pfx_table_free returns every block to the configured allocator (ledger = 0); the rtr_sync unit releases everything it allocated on every exit and tolerates table errors (C03 jobs run with failing table operations).',
    "note": 'Router-key table and tommy under allocation failure are not claimed in the quick tier (F12/F13 candidates are recorded as reading notes in DESIGN.md).',
    "technique": 'CBMC with a symbolic failing allocation index on real trie-pfx.c + allocator ledger',
}


def jobs(tier):
    J = []
    for (nm, entry, td, te) in (("add", "harness_add", 1, 2), ("remove", "harness_remove", 1, 2), ("srcremove", "harness_src_remove", 0, 2)):
        j = C02.op_job("allocfail_%s_v4" % nm, entry, td, te, 4, 1500, prop="ASSERT_C18",
                       extra=["ALLOC_FAIL"] + (["TL_SHAPE=1", "TL_NRECS=2"] if nm == "srcremove" else []))
        j.desc = "k-th allocation fails (k symbolic, 0 = none): " + j.desc
        J.append(j)
    # a node with three records: the only shape in which the undo branch of a failed shrink can misplace an element
    for nm, entry in (("remove", "harness_remove"), ("srcremove", "harness_src_remove")):
        if nm == "srcremove" and tier != "thorough":
            continue  # 17 min on the unchanged tree
        j = C02.op_job("allocfail_%s_v4_node3" % nm, entry, 0, 3, 4, 5400, prop="ASSERT_C18",
                       extra=["ALLOC_FAIL", "TL_SHAPE=1", "TL_NRECS=3"],
                       what="k-th allocation fails: %s on a single-node IPv4 trie with exactly 3 records (all values symbolic)" % entry)
        J.append(j)
    # ---- router-key table (real ht-spkitable.c + tommyhashlin): k-th allocation fails during a history; free returns everything
    from . import C10
    hist = [([1], None), ([1, 2], None)] + [([1, 1], k) for k in range(0, 5)]
    if tier == "thorough":
        hist += [([1, 4], k) for k in range(0, 6)] + [([1, 1, 1], k) for k in range(0, 7)]
    for seq, k in hist:
        # two-operation histories: the final lookups (whose own allocations fail in the one-operation job) are left out
        noq = ["QUERY_SKI_ONLY", "QUERY_ALL_ONLY"] if len(seq) > 1 else []
        j = C10.spki_job(list(seq), extra=["ALLOC_FAIL", "ASSERT_C18"] + noq + (["ALLOC_FAIL_AT=%d" % k] if k is not None else []),
                         name_prefix="spki_allocfail_", weight=3 if len(seq) > 1 else 1,
                         timeout=1500 if len(seq) < 3 else 5400, mem=12 if len(seq) < 3 else 28)
        if k is not None:
            j.name += "_k%d" % k
        j.extra_checks = ["--pointer-check"]
        j.desc = ("%s allocation request fails: every call reports an error or succeeds completely, no NULL "
                  "dereference (CBMC pointer checks on), final spki_table_free returns every block to the configured allocator: "
                  % ("the k-th (k symbolic, 0 = none)" if k is None else ("request number %d" % k if k else "no"))) + j.desc
        J.append(j)
    # the hash container's own allocation (a new bucket segment when a grow step starts) fails
    for b in (1, 2, 3):
        j = C10.hl_job(b, 0, 1, n=2, memory=True)
        j.name = "hashlin_allocfail_insert_b%d" % b
        j.defines = j.defines + ["ALLOC_FAIL"]
        j.desc = "the segment allocation of a starting grow step may fail: " + j.desc
        J.append(j)
    J.append(C02.op_job("ledger_free_v4_d1", "harness_free", 1, 2, 4, 1500, prop="ASSERT_C09", harness="pfx_notify.c"))
    return J
