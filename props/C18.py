"""C18 -- allocation failure is contained; the configured allocator is used consistently."""
from engine import core
from . import C02
from .sync_common import *

INFO = {"outside": "wip", "assumptions": []}
MANIFEST = {"text": "wip", "note": "wip"}


def jobs(tier):
    J = []
    for (nm, entry, td, te) in (("add", "harness_add", 1, 2), ("remove", "harness_remove", 1, 2), ("srcremove", "harness_src_remove", 0, 2)):
        j = C02.op_job("allocfail_%s_v4" % nm, entry, td, te, 4, 1500, prop="ASSERT_C18", extra=["ALLOC_FAIL"])
        j.desc = "k-th allocation fails (k symbolic, 0 = none): " + j.desc
        J.append(j)
    J.append(C02.op_job("ledger_free_v4_d1", "harness_free", 1, 2, 4, 1500, prop="ASSERT_C09", harness="pfx_notify.c"))
    return J
