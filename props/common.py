TRIE_SOURCES = ["rtrlib/pfx/trie/trie.c", "rtrlib/lib/ip.c", "rtrlib/lib/ipv4.c", "rtrlib/lib/ipv6.c",
                "rtrlib/lib/utils.c", "rtrlib/lib/alloc_utils.c"]
TRIE_STUBS = ["size-class allocator installed via lrtr_set_alloc_functions (exact constant-size blocks, never fails unless ALLOC_FAIL)",
              "pthread_rwlock_* replaced by a sequential ghost-state model (lib/rwlock_model.h)"]

PKT_SOURCES = ["rtrlib/lib/convert_byte_order.c", "rtrlib/lib/ipv6.c", "rtrlib/lib/ipv4.c"]
PKT_STUBS = ["tr_recv_all: serves a symbolic byte stream, may fail with any tr_rtvals code at any call (lib/wire.h); "
             "the real chunking loops are verified in harness/transport_all.c",
             "tr_send_all: wire monitor recording every byte handed to the transport; may fail",
             "lrtr_dbg: no body (logging)", "snprintf: model writing the literal text and 1..10 arbitrary digits per %u"]


def recv_job(core, name, prop_define, L, memory_checks, timeout=900, ndebug=True):
    return core.Job(
        name=name, harness="rtr_recv.c", entry="harness",
        defines=["STREAM_LEN=%d" % L, "SENT_MAX=%d" % max(96, L + 72)] + ([prop_define] if prop_define else []),
        unwind=max(L, 96) + 80, timeout=timeout, mem_gb=12, sources=PKT_SOURCES, object_bits=10,
        memory_checks=memory_checks, ndebug=ndebug, flags_meta=["unwind-is-violation"],
        desc="real rtr_receive_pdu on an arbitrary %d-byte stream, unscaled 3248-byte buffer; version, first-PDU "
             "flag, socket state, transport faults at every call symbolic%s" % (L, "; all CBMC memory-safety checks on" if memory_checks else ""),
        bounds={"stream_bytes": L, "pdus": 1, "RTR_MAX_PDU_LEN": 3248}, stubs=PKT_STUBS)
