"""C10 -- the router-key table is an exact set keyed by AS, SKI, key and source."""
import itertools
from engine import core

INFO = {
    "outside": 'histories longer than the listed skeletons; full 20/91-byte key entropy; unscaled 64-bucket table beyond 3 inserts',
    "assumptions": ['allocator never fails', 'rwlock model'],
}
MANIFEST = {
    "text": 'Bounded model checking of the real ht-spkitable.c + tommyhashlin + tommylist on operation-kind skeletons (add / remove / remove-by-source / reload) from the empty table with every key symbolic -- in particular a free 32-bit AS number, so bucket collisions are found by the solver -- against an array model, with final get_all / search_by_ski queries for an arbitrary (AS, SKI) and the callback recorder. The hash table is scaled to 2 initial buckets (hook) so grow steps are crossed.',
    "note": "Bounded: histories of <=2 operations in the quick tier (3-5 in thorough; each costs minutes and >10 GB: the 111-byte key arrays and tommy's pointer arithmetic are expensive to encode). SKI/SPKI vary in byte 0 only. Solver: CaDiCaL.",
    "technique": 'CBMC on real ht-spkitable.c/tommyhashlin.c with symbolic keys and skeleton-enumerated histories',
}

SPKI_SOURCES = ["third-party/tommyds/tommyhashlin.c", "third-party/tommyds/tommylist.c"]
NM = {1: "A", 2: "R", 3: "S", 4: "L"}
SPKI_STUBS = ["typed size-class allocator behind lrtr_malloc/lrtr_realloc/lrtr_free/lrtr_calloc (never fails here)",
              "pthread_rwlock_*: sequential ghost-state model", "hook RTRLIB_VERIF_HASHLIN_BIT=1 (2 initial buckets) unless 'unscaled'"]


def spki_job(seq, scaled=True, timeout=900, extra=None, prop=None, name_prefix="hist_", weight=1, mem=12):
    n = len(seq)
    d = ["OPS=" + ",".join(str(x) for x in seq)] + (["RTRLIB_VERIF_HASHLIN_BIT=1"] if scaled else []) + (extra or [])
    us = dict([("harness.%d" % i, 100) for i in range(24)] + [("nd_key.0", 100), ("nd_key.1", 100), ("memcmp.0", 100),
              ("lrtr_calloc.0", 70), ("memset.0", 100), ("memcpy.0", 142), ("vl_slot.0", 6), ("vl_slot.1", 6)])
    return core.Job(
        name=name_prefix + "".join(NM[x] for x in seq) + ("" if scaled else "_unscaled"), harness="spki_ops.c", entry="harness",
        defines=d, unwind=n + 3, unwindset=us, timeout=timeout, mem_gb=mem, sources=SPKI_SOURCES, object_bits=11, weight=weight, solver=['--sat-solver', 'cadical'],
        desc="real ht-spkitable.c + tommyhashlin/tommylist: history [%s] from the empty table (A add, R remove, S remove-by-"
             "source, L reload=copy_except+swap+free); every key symbolic (32-bit AS, SKI/SPKI byte 0, 2 sources); final "
             "get_all/search_by_ski for an arbitrary (AS, SKI)" % "".join(NM[x] for x in seq),
        bounds={"history": "".join(NM[x] for x in seq), "initial_buckets": 2 if scaled else 64, "asn": "32 bit",
                "ski_spki": "byte 0 symbolic, other bytes zero"}, stubs=SPKI_STUBS)


def jobs(tier):
    J = []
    quick = [[1], [2], [3], [1, 1], [1, 2], [1, 3]]
    for seq in quick:
        J.append(spki_job(seq, weight=3 if len(seq) > 1 else 1, timeout=1500))
    if tier == "thorough":
        three = [list(s) for s in itertools.product((1, 2, 3), repeat=3) if s[0] == 1]
        J += [spki_job(s, timeout=5400, weight=5, mem=28) for s in three]
        J += [spki_job(s, timeout=5400, weight=5, mem=28) for s in ([1, 1, 4], [1, 4, 1], [1, 1, 1, 1], [1, 1, 1, 2], [1, 1, 2, 2])]
        J += [spki_job([1, 1, 1], scaled=False, timeout=5400, weight=5, mem=28)]
    return J
