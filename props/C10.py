"""C10 -- the router-key table is an exact set keyed by AS, SKI, key and source."""
import itertools
from engine import core

INFO = {
    "outside": 'spki_table_copy_except_socket of a non-empty table on its success path (28 GB exhausted, DESIGN.md section 8); spki-level histories longer than the listed skeletons; full 20/91-byte key entropy; hash container states with more than 8 (16 in thorough) buckets or more than 3 materialised objects per step; unscaled 64-bucket table beyond 3 inserts',
    "assumptions": ['allocator never fails (allocation failure is C18)', 'rwlock model'],
}
MANIFEST = {
    "text": 'Two layers, both bounded model checking of the real code. (1) The real ht-spkitable.c + tommyhashlin + tommylist on operation-kind skeletons (add / remove / remove-by-source / copy into a fresh table as a reload does) from the empty table with every key symbolic -- in particular a free 32-bit AS number, so bucket collisions are found by the solver -- against an array model, with final get_all / search_by_ski queries for an arbitrary (AS, SKI) and the callback recorder. The swap of two tables is decided structurally (both containers exchanged completely, one write section each). (2) An inductive step on the real tommy_hashlin container: ONE insert / remove / remove_existing from an ARBITRARY valid container state (bucket count, resize state stable/grow/shrink and split position enumerated by the driver; element count and up to 3 objects with free 32-bit hashes symbolic), asserting that the representation invariant is re-established and every object is addressed as specified -- with the init base case this covers histories of any length, including partial shrinks reversed into grows that need dozens of operations to reach.',
    "note": "Bounded: spki histories of <=2 operations in the quick tier (3-5 in thorough; each costs minutes and >10 GB); SKI/SPKI vary in their first and last byte. Container step: 2..8 buckets before the step (hook RTRLIB_VERIF_HASHLIN_BIT=1 scales the minimum from 64 to 2), <=3 materialised objects (2 for the growing insert at 8 buckets); the element-count field is symbolic and only bounded below by the materialised objects.",
    "technique": 'CBMC on real ht-spkitable.c/tommyhashlin.c: skeleton-enumerated histories with symbolic keys + inductive single-step check of the hash container over a symbolic valid state',
}

SPKI_SOURCES = ["third-party/tommyds/tommyhashlin.c", "third-party/tommyds/tommylist.c"]
NM = {1: "A", 2: "R", 3: "S", 4: "L", 5: "C"}
SPKI_STUBS = ["typed size-class allocator behind lrtr_malloc/lrtr_realloc/lrtr_free/lrtr_calloc (never fails here)",
              "pthread_rwlock_*: sequential ghost-state model", "hook RTRLIB_VERIF_HASHLIN_BIT=1 (2 initial buckets) unless 'unscaled'"]


def spki_job(seq, scaled=True, timeout=900, extra=None, prop=None, name_prefix="hist_", weight=1, mem=12):
    n = len(seq)
    d = ["OPS=" + ",".join(str(x) for x in seq)] + (["RTRLIB_VERIF_HASHLIN_BIT=1"] if scaled else []) + (extra or [])
    us = dict([("harness.%d" % i, 100) for i in range(24)] + [("nd_key.0", 100), ("nd_key.1", 100), ("memcmp.0", 100),
              ("lrtr_calloc.0", 70), ("memset.0", 100), ("memcpy.0", 142), ("vl_slot.0", 6), ("vl_slot.1", 6)])
    return core.Job(
        name=name_prefix + "".join(NM[x] for x in seq) + ("" if scaled else "_unscaled"), harness="spki_ops.c", entry="harness",
        defines=d, unwind=n + 3, unwindset=us, timeout=timeout, mem_gb=mem, sources=SPKI_SOURCES, object_bits=11, weight=weight, solver=['--sat-solver', 'cadical'],
        desc="real ht-spkitable.c + tommyhashlin/tommylist: history [%s] from the empty table (A add, R remove, S remove-by-"
             "source, L reload=copy_except+swap+free); every key symbolic (32-bit AS, SKI/SPKI byte 0, 2 sources); final "
             "get_all/search_by_ski for an arbitrary (AS, SKI)" % "".join(NM[x] for x in seq),
        bounds={"history": "".join(NM[x] for x in seq), "initial_buckets": 2 if scaled else 64, "asn": "32 bit",
                "ski_spki": "byte 0 symbolic, other bytes zero"}, stubs=SPKI_STUBS)


HL_STATE = {0: "stable", 1: "grow", 2: "shrink"}
HL_OP = {0: "init", 1: "insert", 2: "remove", 3: "remove_existing"}


def hl_job(b, state, op, split=0, n=3, bit=1, timeout=900, mem=8, weight=1, memory=False, crange=None, solver=None):
    big = (1 << (b + 1)) + 2
    low = (1 << b) if state == 0 else (1 << (b - 1))
    us = {"tommy_hashlin_remove.0": n + 2, "tommy_hashlin_search.0": n + 3, "hashlin_grow_step.0": n + 3,
          "hashlin_grow_step.1": (1 << b) + 1, "hashlin_shrink_step.0": (1 << (b - 1)) + 1 if b > 0 else 2,
          "which_obj.0": n + 3, "scan_bucket.0": n + 4, "scan.0": big}
    return core.Job(
        name="hashlin_%s_b%d_%s%s%s%s" % (HL_OP[op], b, HL_STATE[state], (("%d" % split) if state else "") + (("_c%d" % crange[0]) if crange else ""), ("" if bit == 1 else "_bit%d" % bit) + ("" if n == 3 else "_n%d" % n),
                                         "_mem" if memory else ""),
        harness="hashlin_step.c", entry="harness",
        defines=["HL_B=%d" % b, "HL_STATE=%d" % state, "HL_OP=%d" % op, "HL_N=%d" % n] + (["HL_SPLIT=%d" % split] if state else [])
        + (["HL_CLO=%du" % crange[0], "HL_CHI=%du" % crange[1]] if crange else [])
        + (["RTRLIB_VERIF_HASHLIN_BIT=%d" % bit] if bit != 6 else []),
        unwind=max(big, n + 5), unwindset=us, timeout=timeout, mem_gb=mem, sources=SPKI_SOURCES, object_bits=10, weight=weight,
        memory_checks=memory, flags=(["--no-malloc-may-fail"] if memory else []), solver=(list(solver) if solver else []),
        desc="real tommyhashlin.c + tommylist: ONE %s from an arbitrary valid container state with %d buckets, %s "
             "(element count and <=%d objects with free 32-bit hashes symbolic): representation invariant re-established "
             "(induction step: with the init base case this covers histories of any length), every object addressed per "
             "specification, search exact%s"
             % (HL_OP[op], 1 << b, ("resize state '%s' at split position %d of %d" % (HL_STATE[state], split, low)) if state else "stable",
                n, "; CBMC standard memory checks on" if memory else ""),
        bounds={"buckets_before": 1 << b, "state": HL_STATE[state], "split": split, "materialised_objects": "<=%d" % n,
                "initial_bit": bit, "count": ("[%d, %d]" % crange) if crange else "< 2^28, >= materialised objects"},
        stubs=["typed size-class allocator behind lrtr_malloc/lrtr_free/lrtr_calloc (never fails here)",
               ("hook RTRLIB_VERIF_HASHLIN_BIT=%d" % bit) if bit != 6 else "unscaled TOMMY_HASHLIN_BIT=6"])


def hl_jobs(bs, n=3, bit=1, n_grow=2, **kw):
    J = [hl_job(bit, 0, 0, n=n, bit=bit, **kw)]
    for b in bs:
        for op in (1, 2, 3):
            if op == 1 and b >= 3:
                # the element count decides the trip count of the grow loop: one job per class, together [0, 2^28)
                half, top = (1 << b) // 2, (1 << 28) - 1
                cl = [(0, half - 1)] + [(half + j, half + j) for j in range(0, half - 1)] + [(2 * half - 1, top)]
                # (3 objects: 320 s for 6 splits, no verdict in 900 s for 8 -- measured; 2 objects: <= 60 s with MiniSat)
                J += [hl_job(b, 0, op, n=n_grow, bit=bit, crange=c, **kw) for c in cl]
            else:
                J.append(hl_job(b, 0, op, n=n, bit=bit, **kw))
            if b <= bit:
                continue
            for state in (1, 2):
                for split in range(1, 1 << (b - 1)):
                    J.append(hl_job(b, state, op, split=split, n=n, bit=bit, **kw))
    return J


def jobs(tier):
    J = []
    quick = [[1], [2], [3], [1, 1], [1, 2], [1, 3]]
    for seq in quick:
        J.append(spki_job(seq, weight=3 if len(seq) > 1 else 1, timeout=1500))
    J += hl_jobs((1, 2, 3))
    # the reload operation L (spki_table_copy_except_socket into a fresh table + swap + free of the old one, as rtr_sync does
    # it): with both final lookups the job runs out of 28 GB, so each lookup gets its own job
    # the reload as rtr_sync does it, in two halves (the whole operation L = copy + memcpy-swap + free gives no verdict:
    # after the memcpy of the containers every bucket pointer is arbitrary bytes to CBMC -- 27 GB): operation C = init a fresh
    # table, spki_table_copy_except_socket into it, free the old one, continue the history on the copy; harness_swap = the
    # swap exchanges both containers completely inside one write section of each table
    # (hist_AC, the copy of a NON-empty table, exhausts 28 GB in every variant tried -- with/without lookups, constant table
    # pointer -- and is not in any tier; the copy loop's failure paths run in C18's spki_allocfail_AL_k* jobs)
    J.append(spki_job([5, 1], weight=3, timeout=1500))
    j = spki_job([1], name_prefix="swap_", timeout=900)
    j.name, j.entry = "spki_swap", "harness_swap"
    j.desc = ("real spki_table_swap on two tables holding 0/1 symbolic keys each: hash table and list of both tables exchanged "
              "completely, callbacks stay, one write section per table (structural check, no container operation afterwards)")
    J.append(j)
    if tier == "thorough":
        # three-operation histories (each minutes and > 10 GB) and the reload operation; longer ones are left to the
        # inductive container step below
        J += [spki_job(s, timeout=5400, weight=5, mem=28) for s in ([1, 1, 2], [1, 1, 3], [1, 2, 1], [1, 3, 1])]
        # (measured: AAA no verdict in 25 min; histories with the reload operation L run out of 28 GB -- the reload's
        # copy/swap/free of the real spki table is exercised by C18's spki_allocfail_AL_k* jobs, which skip the final lookups)
        # container step with 16 buckets before the step (2 materialised objects)
        J += [j for j in hl_jobs((4,), n=2, n_grow=2, timeout=3600) if "_b4_" in j.name]
    return J
