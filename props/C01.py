"""C01 -- route-origin validation agrees with RFC 6811 for every table and every query."""
from engine import core
from .common import TRIE_SOURCES, TRIE_STUBS

INFO = {
    "outside": "tables deeper than the template or with more than TE records per node (reached only through C02's induction); depth-32/128 chains; allocation failure while building the reason list (C18)",
    "assumptions": ['table = arbitrary trie within template(TD,TE) satisfying Inv', 'allocator never fails', 'POSIX rwlock semantics (sequential model)'],
}
MANIFEST = {
    "text": "Bounded model checking of the real pfx_table_validate(_r): for an ARBITRARY Inv-valid table inside a template and an ARBITRARY query (AS incl. 0, all prefix bits incl. host bits, every length, reasons on/off) the solver decides equality with an RFC 6811 oracle evaluated by full traversal, and the exact content of the reason list. All 2^32 / 2^128 prefixes and all AS / max-length values are covered symbolically; the history dimension is reached through C02's induction over Inv.",
    "note": "Bounded: template depth 1 (quick) / 2 (thorough), <=2 records per node; Inv assumed here, proved inductive in C02. Trusted: oracle code lib/trie_lib.h (flat snapshot, independent of rtrlib's search), typed size-class allocator, sequential rwlock model, CBMC.",
    "technique": 'CBMC symbolic execution of pfx_table_validate_r on a symbolic Inv-valid trie template vs RFC 6811 traversal oracle',
}


def vjob(name, td, te, fam, timeout, unwind=10, mem=10, shape=None):
    j = _vjob(name, td, te, fam, timeout, unwind, mem)
    if shape is not None:
        nslots = (1 << (td + 1)) - 1
        j.defines += ["TL_SHAPE=%d" % shape, "TL_NRECS=" + ",".join([str(te)] * nslots)]
        j.desc = ("pfx_table_validate(_r) on an IPv%d trie of FIXED shape (slot mask %d of the depth-%d template, "
                  "%d record(s) per node; every prefix, length, AS, max length symbolic, Inv assumed) -- the walk has to step over a node "
                  "between two covering nodes; query AS/prefix/length/reasons symbolic; RFC 6811 oracle by full traversal"
                  % (fam, shape, td, te))
        j.bounds = dict(j.bounds, shape_mask=shape)
    return j


def _vjob(name, td, te, fam, timeout, unwind=10, mem=10):
    return core.Job(
        name=name, harness="pfx_validate.c", entry="harness_validate",
        defines=["TD=%d" % td, "TE=%d" % te, "FAM=%d" % fam],
        unwind=unwind, timeout=timeout, mem_gb=mem, sources=TRIE_SOURCES, object_bits=12,
        desc="pfx_table_validate(_r) on an arbitrary Inv-valid IPv%d trie of template(depth %d, <=%d records/node); "
             "query AS/prefix/length/reasons symbolic; RFC 6811 oracle by full traversal" % (fam, td, te),
        bounds={"template_depth": td, "records_per_node": te, "family": fam, "query_len": "0..%d" % (32 if fam == 4 else 128)},
        stubs=TRIE_STUBS)


def jobs(tier):
    J = [vjob("validate_v4_d1", 1, 2, 4, 900), vjob("validate_v6_d1", 1, 2, 6, 1500)]
    J[1].solver = ["--sat-solver", "cadical"]  # MiniSat needs > 225 s here (measured), CaDiCaL ~ 120 s
    # three-node chains (root -> child -> grandchild): the shortest shape in which the walk from one covering node to the
    # next has to pass a node that does not cover the query
    for nm, mask in (("LL", 11), ("LR", 19), ("RL", 37), ("RR", 69)):
        J.append(vjob("validate_v4_chain%s" % nm, 2, 1, 4, 1500, unwind=17, shape=mask))
    J.append(vjob("validate_v6_chainLR", 2, 1, 6, 1500, unwind=17, shape=19))
    J.append(vjob("validate_v6_chainRL", 2, 1, 6, 1500, unwind=17, shape=37))
    if tier == "thorough":
        # (the symbolic-shape depth-2 template runs out of 24 GB: measured; fixed depth-2 shapes with symbolic data instead)
        for nm, mask, te in (("full", 127, 1), ("leafL_innerR", 39, 1), ("innerL_leafR", 15, 1), ("chainLR_e2", 19, 2), ("chainRL_e2", 37, 2)):
            J.append(vjob("validate_v4_d2_%s" % nm, 2, te, 4, 3000, unwind=17, mem=24, shape=mask))
        J.append(vjob("validate_v6_d2_full", 2, 1, 6, 3000, unwind=17, mem=24, shape=127))
    return J
