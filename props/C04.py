"""C04 -- no byte stream from a cache can corrupt memory, abort or hang the client."""
from engine import core
from .common import recv_job

INFO = {
    "outside": "streams longer than L bytes; multi-PDU streams in one query (composition via C03's contract)",
    "assumptions": ['recv/send callbacks return a positive count <= requested or a negative tr_rtvals code'],
}
MANIFEST = {
    "text": "Bounded model checking with ALL of CBMC's memory-safety checks on (pointer, bounds, pointer primitives, division, signed overflow, undefined shifts) of the real rtr_receive_pdu on an arbitrary 48/96-byte stream with the unscaled 3248-byte buffer, transport faults at every call, arbitrary version / first-PDU flag / state -- once as shipped (-DNDEBUG) and once with rtrlib's asserts as obligations; of the real tr_recv_all / tr_send_all for arbitrary chunkings and faults; of the lengths rtr_receive_pdu asks the Error Report sender to encapsulate (contract stub in place of the static rtr_send_error_pdu: <= bytes received of the offending PDU, <= RTR_MAX_PDU_LEN, inside the object passed); and of decoded hostile prefix PDUs (length 0, 33..255, max < min, any flags) applied through the real rtr_update_pfx_table to the real trie followed by an arbitrary validation.",
    "note": "Bounded: one PDU per stream of <=48 (quick) / 96 (thorough) bytes; PDU sequences are covered PDU-wise through the contract composition (C03). --pointer-overflow-check is off (its failures never reproduce under sanitizers). Trusted: transport contract 'returns >0 or a negative code'.",
    "technique": 'CBMC with standard memory-safety checks on real packets.c/transport.c over an arbitrary byte stream',
}


from .common import TRIE_SOURCES, TRIE_STUBS, PKT_STUBS
from .sync_common import *


def jobs(tier):
    L = 48 if tier == "quick" else 96
    J = [recv_job(core, "recv_mem_L%d" % L, None, L, True),
         recv_job(core, "recv_mem_asserts_L%d" % L, None, L, True, ndebug=False)]
    jr = recv_job(core, "recv_report_len_L%d" % L, "REPORT_LEN_STUB", L, True)
    jr.replace_calls = [("rtr_send_error_pdu", "stub_send_error_pdu")]
    jr.desc += "; the static rtr_send_error_pdu replaced by a contract stub asserting that the length it is asked to encapsulate is <= the bytes received of the offending PDU, <= RTR_MAX_PDU_LEN and inside the object passed (no VLA of hostile size needed to see an over-long report request)"
    jr.stubs = list(jr.stubs) + ["rtr_send_error_pdu replaced (goto-instrument --replace-calls) by a length-contract stub in this job only"]
    J.append(jr)
    for nm, entry in (("recv_all", "harness_recv"), ("send_all", "harness_send")):
        J.append(core.Job(name="transport_" + nm, harness="transport_all.c", entry=entry, defines=["TLEN=%d" % (12 if tier == "quick" else 14)],
                          unwind=26, timeout=900, memory_checks=True, object_bits=9, flags_meta=["unwind-is-violation"],
                          desc="real %s over a transport with arbitrary chunk sizes 1..remaining and faults at any call" % nm,
                          bounds={"length": "0..%d bytes" % (12 if tier == "quick" else 14)},
                          stubs=["recv/send callbacks: arbitrary chunking and faults", "clock: arbitrary"]))
    for ndebug, v6 in ((True, False), (False, False), (True, True), (False, True)):
        if tier == "quick" and v6:
            continue
        J.append(core.Job(name="hostile_record_to_trie_v%d" % (6 if v6 else 4) + ("" if ndebug else "_asserts"), harness="pdu_to_trie.c", entry="harness",
                          defines=["TD=0", "TE=1", "FAM=4", "LENGTHS_CHECKED", "TL_SHAPE=1", "TL_NRECS=1"] + (["REC_V6"] if v6 else []), unwind=9, ndebug=ndebug,
                          unwindset={"trie_insert": 4, "trie_remove": 4, "trie_lookup.0": 5, "trie_lookup_exact.0": 5,
                                     "pfx_table_del_elem.0": 3},
                          timeout=3600 if v6 else 1800, mem_gb=30 if v6 else 16, weight=4 if v6 else 1, memory_checks=True, object_bits=12, sources=TRIE_SOURCES,
                          desc="record as copied from a prefix PDU (lengths as rtr_update_pfx_table lets them through, host bits / "
                               "AS / max-length arbitrary) added to or removed from the real trie (pre-state: one IPv4 node with one "
                               "record + arbitrary 0/1-node IPv6 trie, all values symbolic) + arbitrary validate; all CBMC memory-safety and undefined-shift checks on"
                               + ("" if ndebug else "; rtrlib asserts enabled"),
                          bounds={"template_depth": 0, "records_per_node": 1}, stubs=TRIE_STUBS))
    # the length check itself: no record with a length beyond the address width reaches the tables
    for sk in [[CR, V4, EOD], [CR, V6, EOD], [CR, V4, V6, EOD]]:
        J.append(sync_job("ASSERT_C04", sk))
    return J
