"""C04 -- no byte stream from a cache can corrupt memory, abort or hang the client."""
from engine import core
from .common import recv_job

INFO = {
    "outside": "streams longer than L bytes; multi-PDU streams in one query (composition via C03's contract)",
    "assumptions": ['recv/send callbacks return a positive count <= requested or a negative tr_rtvals code'],
}
MANIFEST = {
    "text": "Bounded model checking with ALL of CBMC's memory-safety checks on (pointer, bounds, pointer primitives, division, signed overflow, undefined shifts) of the real rtr_receive_pdu on an arbitrary 48/96-byte stream with the unscaled 3248-byte buffer, transport faults at every call, arbitrary version / first-PDU flag / state -- once as shipped (-DNDEBUG) and once with rtrlib's asserts as obligations; of the real tr_recv_all / tr_send_all for arbitrary chunkings and faults; and of decoded hostile prefix PDUs (length 0, 33..255, max < min, any flags) applied through the real rtr_update_pfx_table to the real trie followed by an arbitrary validation.",
    "note": "Bounded: one PDU per stream of <=48 (quick) / 96 (thorough) bytes; PDU sequences are covered PDU-wise through the contract composition (C03). --pointer-overflow-check is off (its failures never reproduce under sanitizers). Trusted: transport contract 'returns >0 or a negative code'.",
    "technique": 'CBMC with standard memory-safety checks on real packets.c/transport.c over an arbitrary byte stream',
}


from .common import TRIE_SOURCES, TRIE_STUBS, PKT_STUBS


def jobs(tier):
    L = 48 if tier == "quick" else 96
    J = [recv_job(core, "recv_mem_L%d" % L, None, L, True),
         recv_job(core, "recv_mem_asserts_L%d" % L, None, L, True, ndebug=False)]
    for nm, entry in (("recv_all", "harness_recv"), ("send_all", "harness_send")):
        J.append(core.Job(name="transport_" + nm, harness="transport_all.c", entry=entry, defines=["TLEN=%d" % (12 if tier == "quick" else 20)],
                          unwind=26, timeout=900, memory_checks=True, object_bits=9,
                          desc="real %s over a transport with arbitrary chunk sizes 1..remaining and faults at any call" % nm,
                          bounds={"length": "0..%d bytes" % (12 if tier == "quick" else 20)},
                          stubs=["recv/send callbacks: arbitrary chunking and faults", "clock: arbitrary"]))
    for ndebug in (True, False):
        J.append(core.Job(name="hostile_pdu_to_trie" + ("" if ndebug else "_asserts"), harness="pdu_to_trie.c", entry="harness",
                          defines=["TD=1", "TE=1", "FAM=4"], unwind=9, ndebug=ndebug,
                          unwindset={"trie_insert": 4, "trie_remove": 4, "trie_lookup.0": 5, "trie_lookup_exact.0": 5,
                                     "pfx_table_del_elem.0": 3, "tr_send_all.0": 70, "snprintf.0": 100, "strlen.0": 100,
                                     "lrtr_ipv6_addr_convert_byte_order.0": 5, "memcmp.0": 20},
                          timeout=1800, mem_gb=16, memory_checks=True, object_bits=12,
                          sources=TRIE_SOURCES + ["rtrlib/lib/convert_byte_order.c"],
                          desc="hostile IPv4/IPv6 prefix PDU (any length/max-length/flags/host bits) through the real "
                               "rtr_update_pfx_table into the real trie (arbitrary Inv-valid 3-node pre-state) + arbitrary validate; "
                               "all CBMC memory-safety checks on" + ("" if ndebug else "; rtrlib asserts enabled"),
                          bounds={"template_depth": 1, "records_per_node": 1}, stubs=TRIE_STUBS + PKT_STUBS))
    return J
