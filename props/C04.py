"""C04 -- no byte stream from a cache can corrupt memory, abort or hang the client."""
from engine import core
from .common import recv_job

INFO = {"outside": "wip", "assumptions": []}
MANIFEST = {"text": "wip", "note": "wip"}


def jobs(tier):
    L = 48 if tier == "quick" else 96
    return [recv_job(core, "recv_mem_L%d" % L, None, L, True),
            recv_job(core, "recv_mem_asserts_L%d" % L, None, L, True, ndebug=False)]
