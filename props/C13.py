"""C13 -- the protocol version is negotiated downward only and then enforced."""
from engine import core
from .common import recv_job
from .fsm_common import fsm_job
from .sync_common import *

INFO = {"outside": "wip", "assumptions": []}
MANIFEST = {"text": "wip", "note": "wip"}


def jobs(tier):
    L = 48 if tier == "quick" else 96
    B = 8 if tier == "quick" else 12
    J = [recv_job(core, "recv_version_L%d" % L, "ASSERT_C13", L, False),
         fsm_job("fsm_version_b%d" % B, "ASSERT_C13", B, timeout=2400)]
    for sk in fam_openers() + fam_after_cr() + [[CR, EOD], [CR, V4, EOD]]:
        J.append(sync_job("ASSERT_C13", sk))
    return J
