"""C13 -- the protocol version is negotiated downward only and then enforced."""
from engine import core
from .common import recv_job
from .fsm_common import fsm_job
from .sync_common import *

INFO = {
    "outside": 'as C04/C03/C05',
    "assumptions": ['as C03, C05'],
}
MANIFEST = {
    "text": 'Four solver-checked layers on real code: rtr_receive_pdu on an arbitrary stream (version lowered exactly when the first PDU of a connection carries a lower supported version; any other mismatch refused with Unexpected-Protocol-Version and its payload never read; EOD only in its own format; TR_CLOSED reported as such); rtr_sync skeletons (hang-up before any session lowers the version and reconnects at once; Unsupported-Version report handling); k-step FSM (version never increases, first-PDU flag cleared on every connect, every query carries the negotiated version).',
    "note": 'Bounded: L = 48/96 bytes, skeleton families, B = 8/12.',
    "technique": 'CBMC on real rtr_receive_pdu / rtr_sync / rtr_fsm_start with version bytes symbolic',
}


def jobs(tier):
    L = 48 if tier == "quick" else 96
    B = 8 if tier == "quick" else 12
    J = [recv_job(core, "recv_version_L%d" % L, "ASSERT_C13", L, False),
         fsm_job("fsm_version_b%d" % B, "ASSERT_C13", B, timeout=2400)]
    for sk in fam_openers() + fam_after_cr() + [[CR, EOD], [CR, V4, EOD]]:
        J.append(sync_job("ASSERT_C13", sk))
    return J
