"""C13 -- the protocol version is negotiated downward only and then enforced."""
from engine import core
from .common import recv_job

INFO = {"outside": "streams longer than L bytes in one PDU", "assumptions": []}
MANIFEST = {"text": "wip", "note": "wip"}


def jobs(tier):
    L = 48 if tier == "quick" else 96
    return [recv_job(core, "recv_version_L%d" % L, "ASSERT_C13", L, False)]
