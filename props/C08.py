"""C08 -- after any finite run of faults the client re-converges on the cache's data."""
from .fsm_common import fsm_job
from .sync_common import *

INFO = {
    "outside": 'the liveness composition itself; fault schedules are covered through the arbitrary start state rather than enumerated',
    "assumptions": ['as C05'],
}
MANIFEST = {
    "text": "Unbounded liveness of a threaded state machine is not decidable by bounded symbolic execution; decided are the local lemmas from which the time bound is assembled by hand: (L1) from an arbitrary SInv state no reconnect cycle happens without sleep(retry_interval) in between, except one immediate reconnect per version downgrade; (L2) = C07's expiry lemma; (L3) with a cache that answers correctly, ESTABLISHED is reached within 16 environment interactions and 2 retry intervals of protocol time from EVERY SInv state. A deliberately too small step bound makes (L3) fail, so it is not vacuous.",
    "note": "The composition of L1-L3 into 'refresh + expire + small multiple of retry' is a hand argument in DESIGN.md, not machine-checked. Data-set equality after convergence is C03's statement.",
    "technique": 'CBMC bounded lemmas (no zero-time cycle, bounded convergence) on real rtr_fsm_start',
}


def jobs(tier):
    B = 8 if tier == "quick" else 12
    return [fsm_job("fsm_no_zero_time_cycle_b%d" % B, "ASSERT_C08", B, timeout=2400),
            fsm_job("fsm_converges_b16", "ASSERT_C08", 16, extra=["GOOD_ENV"], timeout=2400)] + \
        [sync_job("ASSERT_C05", sk) for sk in fam_after_cr() + [[CR, EOD], [CR, V4, EOD], [CR, V4, T_OUT], [CR, V4, TRERR]]]
