"""C08 -- after any finite run of faults the client re-converges on the cache's data."""
from .fsm_common import fsm_job

INFO = {"outside": "wip", "assumptions": []}
MANIFEST = {"text": "wip", "note": "wip"}


def jobs(tier):
    B = 8 if tier == "quick" else 12
    return [fsm_job("fsm_no_zero_time_cycle_b%d" % B, "ASSERT_C08", B, timeout=2400),
            fsm_job("fsm_converges_b16", "ASSERT_C08", 16, extra=["GOOD_ENV"], timeout=2400)]
