"""C11 -- a BGPsec path is VALID only if every hop's signature verifies under its AS's key."""
from engine import core

INFO = {
    "outside": 'more than 3 hops; signature lengths other than the per-job constants; OpenSSL itself',
    "assumptions": ['ECDSA_verify is a function of (digest, signature, key)'],
}
MANIFEST = {
    "text": "Bounded model checking of the real rtr_bgpsec_validate_as_path with OpenSSL stubbed at its API: for 1..3 hops with all field values symbolic the bytes handed to SHA-256 per hop equal an independent RFC 8205 section 4.2 serialiser, every ECDSA verification uses that hop's signature and a key registered for the hop's SKI and AS, VALID <=> every hop verifies, specific codes for wrong counts / suite / AFI, with all memory-safety checks on (hostile signature / NLRI lengths).",
    "note": 'ECDSA, SHA-256 and DER parsing are environment (contract stubs). Known finding F7 (keys looked up by SKI only) is reported as KNOWN-FINDING and the same jobs must pass with exactly that input class excluded. The two AFI/SAFI copies in the API structs are kept equal.',
    "technique": 'CBMC on real bgpsec.c/bgpsec_utils.c with OpenSSL API stubs and an RFC 8205 reference serialiser',
}
BGPSEC_SOURCES = ["rtrlib/bgpsec/bgpsec.c", "rtrlib/bgpsec/bgpsec_utils.c"]
BGPSEC_STUBS = ["OpenSSL stubbed at its API: SHA256_* record the hashed bytes and return an injective tag; d2i_EC_PUBKEY/"
                "d2i_ECPrivateKey/EC_KEY_check_key symbolic outcome; ECDSA_verify answers from a symbolic (hop,key) table and "
                "records its arguments; ECDSA_size/ECDSA_sign symbolic signature", "router-key lookups: 3-entry table model "
                "(real table = C10)", "lrtr_malloc/calloc/free: plain malloc (sizes constant per job)", "lrtr_dbg: empty"]


def bjob(entry, nh, sl, bits, timeout=900, mem_checks=True, extra=None, name=None):
    us = dict([("%s.%d" % (f, i), 140) for i in range(12) for f in ("arbitrary_path", "harness_validate", "harness_sign", "ref_bytes",
              "lrtr_calloc", "ski_to_char", "SHA256_Update", "SHA256_Final", "ski_eq", "ECDSA_sign", "lookup", "ski_is_empty", "memcpy", "memset")])
    return core.Job(name=name or "%s_h%d_s%d_n%d" % (entry.replace("harness_", ""), nh, sl, bits), harness="bgpsec_unit.c", entry=entry,
                    defines=["NH=%d" % nh, "SL=%d" % sl, "NLRI_BITS=%d" % bits] + (extra or []), unwind=nh + 4, unwindset=us,
                    timeout=timeout, mem_gb=12, sources=BGPSEC_SOURCES, object_bits=10, memory_checks=mem_checks,
                    desc="real bgpsec.c/bgpsec_utils.c %s: %d hop(s), %d-byte signatures, %d-bit NLRI; pCount/flags/AS/SKI/"
                         "signature/NLRI bytes/alg/AFI/SAFI/target AS, 3 router keys (AS, SKI) and ECDSA verdicts symbolic"
                         % (entry, nh, sl, bits),
                    bounds={"hops": nh, "signature_bytes": sl, "nlri_bits": bits, "keys": 3}, stubs=BGPSEC_STUBS)


def jobs(tier):
    J = [bjob("harness_validate", 1, 3, 24), bjob("harness_validate", 2, 3, 24), bjob("harness_validate", 1, 2, 128, name="validate_hostile_lengths"),
         bjob("harness_validate", 2, 3, 33), bjob("harness_validate", 2, 3, 0)]
    if tier == "thorough":
        J += [bjob("harness_validate", 3, 3, 24, timeout=3000), bjob("harness_validate", 3, 2, 121, timeout=3000), bjob("harness_validate", 2, 8, 0)]
    return J
