"""C16 -- concurrent readers and writers of the tables are linearizable and race-free (reduced claim)."""
from engine import core
from . import C01, C02

INFO = {
    "outside": 'real interleavings; the router-key table; *_free',
    "assumptions": ['POSIX rwlock semantics'],
}
MANIFEST = {
    "text": "REDUCED claim (CBMC: 'pointer handling for concurrency is unsound' on this heap, so interleavings cannot be symbolic). Lock-discipline lemmas decided on the sequential real code: the table's shared fields hold ARBITRARY values whenever its rwlock is not held ('havoc outside the lock') and the functional oracles of C01/C02 are re-asserted, so any access outside a critical section fails an oracle; each read operation uses exactly one read section and changes nothing; lock/unlock pairing asserted by the lock model.",
    "note": 'NOT machine-checked: the textbook step from (every access inside one critical section, mutations inside write sections, one read section per read) to linearizability and data-race freedom under POSIX rwlock semantics. pfx_table_free and callbacks (which run outside the lock by design) are excluded. Prefix table only in the quick tier.',
    "technique": 'CBMC havoc-outside-lock rwlock model on real trie-pfx.c (sequential reduction)',
}


def jobs(tier):
    J = []
    for (nm, entry, td, te) in (("add", "harness_add", 1, 1), ("remove", "harness_remove", 1, 1),
                                ("srcremove", "harness_src_remove", 0, 2), ("foreach", "harness_for_each", 1, 1)):
        j = C02.op_job("havoc_%s_v4" % nm, entry, td, te, 4, 1200, prop="ASSERT_C02",
                       extra=["VL_HAVOC"] + (["TL_SHAPE=1", "TL_NRECS=2"] if nm == "srcremove" else []))
        j.desc = "C16 havoc-outside-lock model: " + j.desc
        j.native_replay = False
        J.append(j)
    v = C01.vjob("havoc_validate_v4", 1, 1, 4, 1200)
    v.defines = v.defines + ["VL_HAVOC"]
    v.native_replay = False
    J.append(v)
    return J
