"""C16 -- concurrent readers and writers of the tables are linearizable and race-free (reduced claim)."""
from engine import core
from . import C01, C02

INFO = {"outside": "wip", "assumptions": []}
MANIFEST = {"text": "wip", "note": "wip"}


def jobs(tier):
    J = []
    for (nm, entry, td, te) in (("add", "harness_add", 1, 1), ("remove", "harness_remove", 1, 1),
                                ("srcremove", "harness_src_remove", 0, 2), ("foreach", "harness_for_each", 1, 1)):
        j = C02.op_job("havoc_%s_v4" % nm, entry, td, te, 4, 1200, prop="ASSERT_C02", extra=["VL_HAVOC"])
        j.desc = "C16 havoc-outside-lock model: " + j.desc
        j.native_replay = False
        J.append(j)
    v = C01.vjob("havoc_validate_v4", 1, 1, 4, 1200)
    v.defines = v.defines + ["VL_HAVOC"]
    v.native_replay = False
    J.append(v)
    return J
