from engine import core
from .common import PKT_SOURCES

SYNC_STUBS = ["rtr_receive_pdu replaced (goto-instrument --replace-calls) by its contract stub_receive_pdu: per call a "
              "transport/protocol failure with the real function's state change, or any decoded PDU a successful "
              "rtr_receive_pdu can deliver (proved on the real function in harness/rtr_recv.c), all fields symbolic",
              "pfx_table_* / spki_table_*: array table model lib/table_model.h (adequacy = C02/C09/C10)",
              "rtr_get_pdu_type replaced by a stub returning the skeleton type as a constant for the receive buffer (asserted equal to byte 1 of the PDU)", "tr_send_all: wire monitor; lrtr_get_monotonic_time: symbolic non-decreasing clock; "
              "pthread_setcancelstate: no-op; lrtr_dbg: empty; snprintf model",
              "RTRLIB_VERIF hooks: RTR_MAX_PDU_LEN=160, TEMPORARY_PDU_STORE_INCREMENT_VALUE=2"]


CR, V4, V6, EOD, CRESET, KEY, ERR, SN, SQ, RQ = 3, 4, 6, 7, 8, 9, 10, 0, 1, 2
T_OUT, INTR, TRERR, CLOSED, BADPDU, BADVER = 20, 21, 22, 23, 24, 25
NAMES = {3: "CR", 4: "V4", 6: "V6", 7: "EOD", 8: "CRESET", 9: "KEY", 10: "ERR", 0: "SN", 1: "SQ", 2: "RQ",
         20: "timeout", 21: "intr", 22: "trerr", 23: "closed", 24: "badpdu", 25: "badver"}


def skel_name(skel):
    return "-".join(NAMES[x] for x in skel)


def sync_job(prop_define, skel, mpre=2, timeout=600, mem=12, extra=None, weight=1, store_inc=2):
    npay = len([x for x in skel if x in (V4, V6, KEY)])
    d = ["SENT_MAX=36", "MPRE=%d" % mpre, "TM_CAP=%d" % (mpre + npay + 1), prop_define,
         "SKEL=" + ",".join(str(x) for x in skel),
         "RTRLIB_VERIF_MAX_PDU_LEN=160", "RTRLIB_VERIF_PDU_STORE_INCREMENT=%d" % store_inc]
    cap = mpre + npay + 3
    return core.Job(
        name="sync_" + skel_name(skel), harness="rtr_sync_unit.c", entry="harness", defines=d + (extra or []),
        unwind=len(skel) + 2,
        unwindset=dict([("harness.%d" % i, 100) for i in range(16)] +
                       [("stub_receive_pdu.%d" % i, 100) for i in range(3)] +
                       [("stub_err_from_host.0", 33), ("stub_err_from_host.1", 100), ("strlen.0", 100)] +
                       [("snprintf.%d" % i, 100) for i in range(6)] +
                       [("lrtr_ipv6_addr_convert_byte_order.0", 5), ("tm_unk.0", 100), ("tm_unk.1", 100)] +
                       [(f + ".%d" % i, cap) for i in range(3) for f in (
                           "tm_pcount", "tm_kcount", "tm_pfx_count", "tm_spki_count", "tm_pfx_count_sock",
                           "tm_spki_count_sock", "pfx_table_init",
                           "pfx_table_add", "pfx_table_remove", "pfx_table_src_remove", "pfx_table_free_without_notify",
                           "pfx_table_copy_except_socket", "pfx_table_notify_diff", "spki_table_init",
                           "spki_table_add_entry", "spki_table_remove_entry", "spki_table_src_remove",
                           "spki_table_free_without_notify", "spki_table_copy_except_socket", "spki_table_notify_diff")]),
        timeout=timeout, mem_gb=mem, sources=PKT_SOURCES, object_bits=12, weight=weight,
        replace_calls=[("rtr_receive_pdu", "stub_receive_pdu"), ("rtr_send_error_pdu_from_host", "stub_err_from_host"),
                       ("rtr_get_pdu_type", "stub_get_pdu_type")],
        native_replay=False,
        desc="real rtr_sync + rtr_sync_receive_and_store_pdus on the exchange skeleton [%s]: every field of every PDU "
             "(flags, prefixes, lengths, AS, session ids, serial, intervals), the socket state under SInv and the "
             "table pre-state (%d records of this and another cache + 1 router key) are symbolic" % (skel_name(skel), mpre),
        bounds={"skeleton": skel_name(skel), "pre_records": mpre, "RTR_MAX_PDU_LEN": 160, "store_increment": store_inc},
        stubs=SYNC_STUBS)


ALL_TYPES = [SN, SQ, RQ, CR, V4, V6, EOD, CRESET, KEY, ERR]
ALL_FAULTS = [T_OUT, INTR, TRERR, CLOSED, BADPDU, BADVER]


def fam_openers():
    """every possible first event of an exchange, alone and after a Serial Notify"""
    return [[x] for x in ALL_TYPES + ALL_FAULTS if x not in (CR, SN)] + [[SN, x] for x in (ERR, CLOSED, CRESET, T_OUT)]


def fam_after_cr(prefix=()):
    """Cache Response (+ optional payload) followed by every possible event that is not payload"""
    p = [CR] + list(prefix)
    return [p + [x] for x in [SN, SQ, RQ, CR, CRESET, ERR] + ALL_FAULTS]


def fam_complete(tier):
    """complete responses: Cache Response, payload mix, End of Data"""
    fam = [[CR, EOD], [SN, CR, EOD], [CR, SN, EOD], [CR, V4, EOD], [CR, V6, EOD], [CR, KEY, EOD],
           [CR, V4, V4, EOD], [CR, V4, V6, EOD], [CR, V4, KEY, EOD], [CR, V6, KEY, EOD], [CR, KEY, KEY, EOD]]
    if tier == "thorough":
        fam += [[CR, V6, V6, EOD], [CR, V4, V4, V4, EOD], [CR, V4, V6, KEY, EOD], [CR, V6, V4, V6, EOD],
                [CR, KEY, V4, KEY, EOD], [CR, V4, V4, V4, V4, EOD], [CR, V4, V4, V6, V6, EOD], [CR, KEY, KEY, KEY, EOD]]
    return fam
