"""C17 -- timer values stay within protocol bounds whatever the cache sends."""
from engine import core
from .common import PKT_SOURCES, PKT_STUBS
from .fsm_common import fsm_job
from .sync_common import *

INFO = {
    "outside": 'none on values; skeletons as C03',
    "assumptions": ['as C03/C05'],
}
MANIFEST = {
    "text": 'Pure bit-vector reasoning over full 32-bit values: rtr_init accepts exactly in-range intervals; after End of Data in the real rtr_sync (skeletons) the three intervals equal spec(mode, sent value, old value) for all four modes, version 0 never changes them; rtr_wait_for_sync with a symbolic clock waits exactly max(0, last_update + refresh - now) and polls exactly on Serial Notify or timeout; in the k-step FSM a Serial Query follows immediately.',
    "note": 'No bound on the interval values. Skeleton families for the EOD branch as C03.',
    "technique": 'CBMC on real interval code with full 32-bit symbolic values',
}


def jobs(tier):
    B = 6 if tier == "quick" else 10
    J = [
        core.Job(name="rtr_init_intervals", harness="rtr_init_unit.c", entry="harness", unwind=4, timeout=300,
                 sources=["rtrlib/rtr/rtr.c", "rtrlib/rtr/packets.c", "/verif/lib/log_stub.c"],
                 desc="rtr_init with arbitrary 32-bit refresh/expire/retry and mode", bounds={"values": "full 32 bit"},
                 stubs=["lrtr_dbg: empty"]),
        core.Job(name="wait_for_sync", harness="rtr_wait_unit.c", entry="harness", unwind=4, timeout=300,
                 sources=PKT_SOURCES, replace_calls=[("rtr_receive_pdu", "stub_receive_pdu")],
                 defines=["RTRLIB_VERIF_MAX_PDU_LEN=160"], native_replay=False,
                 desc="rtr_wait_for_sync with symbolic clock, last_update, refresh interval and receive outcome",
                 bounds={"values": "full 32 bit"}, stubs=["rtr_receive_pdu: contract stub recording the timeout", "clock: symbolic"]),
        fsm_job("fsm_poll_b%d" % B, "ASSERT_C17", B, extra=["EOD_INTERVALS"], timeout=1800),
    ]
    for sk in [[CR, EOD], [SN, CR, EOD], [CR, V4, EOD], [CR, KEY, EOD]] + (fam_complete(tier)[4:] if tier == "thorough" else []):
        J.append(sync_job("ASSERT_C17", sk, extra=["NO_TABLE_FAIL"] if len(sk) >= 6 else None, timeout=2400 if len(sk) >= 6 else 900))
    return J
