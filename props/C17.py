"""C17 -- timer values stay within protocol bounds whatever the cache sends."""
from engine import core
from .common import PKT_SOURCES, PKT_STUBS
from .sync_common import sync_job

INFO = {"outside": "wip", "assumptions": []}
MANIFEST = {"text": "wip", "note": "wip"}


def jobs(tier):
    J = [
        core.Job(name="rtr_init_intervals", harness="rtr_init_unit.c", entry="harness", unwind=4, timeout=300,
                 sources=["rtrlib/rtr/rtr.c", "rtrlib/rtr/packets.c"],
                 desc="rtr_init with arbitrary 32-bit refresh/expire/retry and mode", bounds={"values": "full 32 bit"},
                 stubs=["none"]),
        core.Job(name="wait_for_sync", harness="rtr_wait_unit.c", entry="harness", unwind=4, timeout=300,
                 sources=PKT_SOURCES, replace_calls=[("rtr_receive_pdu", "stub_receive_pdu")],
                 defines=["RTRLIB_VERIF_MAX_PDU_LEN=160"],
                 desc="rtr_wait_for_sync with symbolic clock, last_update, refresh interval and receive outcome",
                 bounds={"values": "full 32 bit"}, stubs=["rtr_receive_pdu: contract stub recording the timeout", "clock: symbolic"]),
        sync_job("eod_intervals_k0", "ASSERT_C17", 0, timeout=600),
    ]
    return J
