"""C02 -- the prefix table is an exact set of records under every operation history."""
from engine import core
from .common import TRIE_SOURCES, TRIE_STUBS

INFO = {
    "outside": "tries deeper than template depth+1 / more than TE records per node in the pre-state (reached only "
               "through the induction over Inv); records with non-zero host bits or len > width (excluded by the "
               "property's own domain); allocation failure (C18)",
    "assumptions": ["pre-state = arbitrary trie within template(TD,TE) satisfying Inv (lib/trie_lib.h tl_inv)",
                    "allocator never fails in this check", "POSIX rwlock semantics (sequential model)"],
}
MANIFEST = {
    "text": "Inductive bounded model checking: for an ARBITRARY Inv-valid trie inside a template (all prefixes, "
            "lengths, AS numbers, max-lengths, sources symbolic) the solver decides that one real pfx_table_add / "
            "remove / src_remove / for_each call has exactly the set-algebra effect on a universally quantified witness "
            "record, returns the specified code and re-establishes Inv; short real histories from the empty table "
            "check that Inv is not too strong. Covers all histories whose tries stay inside the template, which no "
            "finite test list can.",
    "note": "Bounded: template depth 1 (quick) / 2 (thorough), <=2 records per node, IPv4 full 32-bit and IPv6 "
            "full 128-bit prefixes. Trusted: the hand-written Inv/count oracles (full traversals), the allocator and "
            "rwlock models, CBMC. The step from the single-step lemmas to 'every history' is induction over Inv, "
            "stated, not machine-checked.",
    "technique": "CBMC single-step induction over a symbolic Inv-valid trie template + bounded real histories",
}


def op_job(name, entry, td, te, fam, unwind, timeout, extra=None, prop="ASSERT_C02", weight=1, mem=10, obits=12):
    return core.Job(
        name=name, harness="pfx_ops.c", entry=entry,
        defines=["TD=%d" % td, "TE=%d" % te, "FAM=%d" % fam, prop] + (extra or []),
        unwind=unwind, unwindset={'trie_insert': td + 3, 'trie_remove': td + 3, 'pfx_table_remove_id': td + 3, 'pfx_table_for_each_rec': td + 3}, timeout=timeout, mem_gb=mem, sources=TRIE_SOURCES, weight=weight, object_bits=obits,
        desc="%s on an arbitrary Inv-valid IPv%d trie of template(depth %d, <=%d records/node) + arbitrary 0/1-node "
             "trie of the other family; record, witness and source symbolic" % (entry, fam, td, te),
        bounds={"template_depth": td, "records_per_node": te, "family": fam, "prefix_bits": 32 if fam == 4 else 128,
                "sources": 2}, stubs=TRIE_STUBS)


def jobs(tier, prop="ASSERT_C02"):
    J = []
    J.append(op_job("add_v4_d1", "harness_add", 1, 2, 4, 8, 900, prop=prop))
    J.append(op_job("remove_v4_d1", "harness_remove", 1, 2, 4, 8, 900, prop=prop))
    J.append(op_job("foreach_v4_d1", "harness_for_each", 1, 2, 4, 8, 900, prop=prop))
    J.append(op_job("srcremove_v4_d1e1", "harness_src_remove", 1, 1, 4, 8, 900, prop=prop))
    J.append(op_job("srcremove_v4_d0e2", "harness_src_remove", 0, 2, 4, 8, 900, prop=prop))
    return J
