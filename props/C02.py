"""C02 -- the prefix table is an exact set of records under every operation history."""
from engine import core
from .common import TRIE_SOURCES, TRIE_STUBS

INFO = {
    "outside": "tries deeper than template+1 / more than TE records per node in the pre-state; remove-by-source on tries with more than one node in the quick tier; records with non-zero host bits or len > width (outside the property's domain); allocation failure (C18)",
    "assumptions": ['pre-state = arbitrary trie within template(TD,TE) satisfying Inv (lib/trie_lib.h tl_finv)', 'allocator never fails in this check', 'POSIX rwlock semantics (sequential model)'],
}
MANIFEST = {
    "text": 'Inductive bounded model checking: for an ARBITRARY Inv-valid trie inside a template (all prefixes, lengths, AS numbers, max-lengths, sources symbolic) the solver decides that one real pfx_table_add / remove / src_remove / for_each call has exactly the set-algebra effect on a universally quantified witness record, returns the specified code and re-establishes Inv. Since the empty table satisfies Inv, this covers every history whose tries stay inside the template -- no finite list of histories can.',
    "note": "Bounded: add/remove/enumerate on template depth 1 (quick) / 2 (thorough) with <=2 records per node, IPv4 and IPv6; remove-by-source on single-node tries with 0/1/2 records (quick), 3-node tries in the thorough tier (nested loops x recursion make larger templates too dear). Trusted: Inv/count oracles (flat snapshot), allocator and rwlock models, CBMC; the step from single-step lemmas to 'every history' is induction over Inv, stated, not machine-checked.",
    "technique": 'CBMC single-step induction over a symbolic Inv-valid trie template (real trie-pfx.c/trie.c)',
}


def op_job(name, entry, td, te, fam, timeout, extra=None, prop="ASSERT_C02", weight=1, mem=12, harness="pfx_ops.c", what=None):
    nodes = (1 << (td + 1)) - 1
    srcrm = entry in ("harness_src_remove", "harness_notify_diff", "harness_copy_swap", "harness_free")
    us = {"trie_insert": td + 2 if srcrm else td + 3, "trie_remove": td + 2 if srcrm else td + 3, "pfx_table_remove_id": td + 2,
          "pfx_table_for_each_rec": td + 3, "pfx_table_del_elem.0": te + 1 if srcrm else te + 2, "pfx_table_find_elem.0": te + 3, "pfx_table_elem_matches.0": te + 3,
          # src_remove: inner while / for over <= te(+1) records, outer while <= nodes in the subtree + 1
          "pfx_table_remove_id.0": te + 1, "pfx_table_remove_id.1": te + 1, "pfx_table_remove_id.2": nodes + 1,
          "pfx_table_free.0": te + 2, "pfx_table_free.1": nodes + 3, "pfx_table_free.2": 3,
          "trie_lookup_exact.0": td + 4, "trie_lookup.0": td + 4}
    return core.Job(
        name=name, harness=harness, entry=entry,
        defines=["TD=%d" % td, "TE=%d" % te, "FAM=%d" % fam, prop] + (extra or []),
        unwind=max(9, (1 << (td + 2)) + 1), unwindset=us, timeout=timeout, mem_gb=mem, sources=TRIE_SOURCES, weight=weight,
        object_bits=12,
        desc=what or ("%s on an arbitrary Inv-valid IPv%d trie of template(depth %d, <=%d records/node) + arbitrary 0/1-node "
             "trie of the other family; record, witness and source symbolic" % (entry, fam, td, te)),
        bounds={"template_depth": td, "records_per_node": te, "family": fam, "prefix_bits": 32 if fam == 4 else 128,
                "sources": 2}, stubs=TRIE_STUBS)


def jobs(tier, prop="ASSERT_C02"):
    J = []
    J.append(op_job("add_v4_d1", "harness_add", 1, 2, 4, 900, prop=prop))
    J.append(op_job("remove_v4_d1", "harness_remove", 1, 2, 4, 2400, prop=prop))
    if prop == "ASSERT_C02":
        J[-1].solver = ["--sat-solver", "cadical"]  # MiniSat: none in 600 s on this formula; CaDiCaL ~300 s (C09's variant: MiniSat 110 s)
    # fixed shapes that make trie_remove choose between two children (both leaves; one leaf + one inner node)
    for nm, td, shape, nrecs in (("root2leaves", 1, 7, "1,1,1"), ("leafL_innerR", 2, 39, "1,1,1,1,1,1,1"), ("innerL_leafR", 2, 15, "1,1,1,1,1,1,1")):
        J.append(op_job("remove_v4_%s" % nm, "harness_remove", td, 1, 4, 2400, prop=prop,
                        extra=["TL_SHAPE=%d" % shape, "TL_NRECS=%s" % nrecs],
                        what="harness_remove on an IPv4 trie of fixed shape %s (one record per node, all field values symbolic) + "
                             "arbitrary 0/1-node trie of the other family" % nm))
    # a single node with exactly three records: the only shape in which deleting a record that is not among the last two
    # makes pfx_table_del_elem shift more than one element (seed S-C01-3 copies one element instead of shifting the tail)
    J.append(op_job("remove_v4_node3", "harness_remove", 0, 3, 4, 1500, prop=prop, extra=["TL_SHAPE=1", "TL_NRECS=3"],
                    what="harness_remove on a single-node IPv4 trie with exactly 3 records (all values symbolic)"))
    J.append(op_job("foreach_v4_d1", "harness_for_each", 1, 2, 4, 900, prop=prop))
    for nm, shape, nrecs, te in (("empty", 0, "1", 1), ("n1", 1, "1", 1), ("n2", 1, "2", 2)):
        J.append(op_job("srcremove_v4_d0_%s" % nm, "harness_src_remove", 0, te, 4, 1200, prop=prop,
                        extra=["TL_SHAPE=%d" % shape, "TL_NRECS=%s" % nrecs],
                        what="harness_src_remove on a single-node IPv4 trie with exactly %s record(s) (shape fixed, all field values "
                             "symbolic) + arbitrary 0/1-node trie of the other family" % (nrecs if shape else "0")))
    # two-node tries (root + left / right child, one record each): the removed node's content is replaced by
    # its child's and the node is scanned again -- the path single-node tries cannot reach
    for nm, shape in (("rootleft", 3), ("rootright", 5)):
        J.append(op_job("srcremove_v4_d1_%s" % nm, "harness_src_remove", 1, 1, 4, 1800, prop=prop,
                        extra=["TL_SHAPE=%d" % shape, "TL_NRECS=1,1,1"],
                        what="harness_src_remove on a two-node IPv4 trie (%s, one record each; shape fixed, all field values "
                             "symbolic) + arbitrary 0/1-node trie of the other family" % nm))
    J.append(op_job("add_v6_d1", "harness_add", 1, 1, 6, 1500, prop=prop))
    J.append(op_job("remove_v6_d1", "harness_remove", 1, 1, 6, 1500, prop=prop))
    if tier == "thorough":
        J.append(op_job("add_v4_d2", "harness_add", 2, 2, 4, 3600, prop=prop, weight=3, mem=24))
        # (remove on the symbolic-shape depth-2 template: 2.2 M SSA steps, > 4096 objects, no verdict; the depth-2 behaviour of
        # trie_remove is covered by the fixed shapes leafL_innerR / innerL_leafR above)
        J.append(op_job("foreach_v4_d2", "harness_for_each", 2, 2, 4, 3600, prop=prop, weight=2, mem=24))
        J.append(op_job("srcremove_v4_d0e2", "harness_src_remove", 0, 2, 4, 5400, prop=prop, weight=2, mem=24))
        J.append(op_job("srcremove_v4_d1e1", "harness_src_remove", 1, 1, 4, 5400, prop=prop, weight=2, mem=24))
        J.append(op_job("add_v6_d1e2", "harness_add", 1, 2, 6, 3600, prop=prop, weight=2, mem=24))
        J.append(op_job("remove_v6_d1e2", "harness_remove", 1, 2, 6, 3600, prop=prop, weight=2, mem=24))
        J.append(op_job("srcremove_v6_d0e1", "harness_src_remove", 0, 1, 6, 3600, prop=prop, weight=2, mem=24))
    return J
