"""C15 -- cache-group failover honours the preference order."""
from engine import core

INFO = {
    "outside": 'more than 3 groups / 2 sockets; sequences of steps (covered only through the arbitrary pre-state)',
    "assumptions": ['at most one group ESTABLISHED in the pre-state', "closed groups' sockets are not running"],
}
MANIFEST = {
    "text": 'Bounded model checking of the real rtr_mgr.c: rtr_mgr_init / add_group / remove_group on arbitrary group arrays (rejections, ascending order, last group irremovable) and ONE socket state change delivered through the real callback chain (real rtr_change_socket_state and rtr_stop underneath, so nested SHUTDOWN callbacks happen) in an ARBITRARY manager state of 1..3 groups: newly ESTABLISHED => all sockets synced, less-preferred groups shut down and reported CLOSED, never a more-preferred one; ERROR with none ESTABLISHED => exactly the most-preferred closed group is started.',
    "note": 'Bounded: <=3 groups x <=2 sockets, one step from an arbitrary state (which socket changes and the group sizes are enumerated per job, everything else symbolic). rtr_start is a recorder, tables are no-op stubs, qsort is a model.',
    "technique": 'CBMC one-step-from-arbitrary-state on real rtr_mgr.c with real rtr_stop underneath',
}
MGR_SOURCES = ["rtrlib/rtr/rtr.c", "rtrlib/rtr/packets.c", "third-party/tommyds/tommylist.c"]
MGR_STUBS = ["rtr_start: recorder", "pfx/spki table init/free/src_remove: no-op recorders", "tr_close/tr_free/pthread_cancel/"
             "pthread_join: no-ops", "qsort: insertion-sort model", "typed size-class allocator", "rwlock: sequential model"]


def mjob(name, entry, ng, timeout=900, extra=None):
    us = dict([("harness_step.%d" % i, 40) for i in range(30)] + [("harness_config.%d" % i, 40) for i in range(30)] +
              [("arbitrary_groups.%d" % i, 12) for i in range(4)] + [("locate.0", 8), ("locate.1", 8), ("vl_slot.0", 6), ("vl_slot.1", 6), ("rtr_mgr_cb", 3), ("rtr_stop", 3),
               ("rtr_change_socket_state", 3), ("set_status", 4), ("_rtr_mgr_cb_state_established", 2),
               ("rtr_mgr_close_less_preferable_groups", 2), ("_rtr_mgr_cb_state_shutdown", 3), ("_rtr_mgr_cb_state_error", 2)])
    return core.Job(name=name, harness="mgr_unit.c", entry=entry, defines=["NG=%d" % ng] + (extra or []), unwind=ng + 4, unwindset=us,
                    timeout=timeout, mem_gb=12, sources=MGR_SOURCES, object_bits=11,
                    desc="real rtr_mgr.c (%s) with %d groups x <=2 sockets, preferences / statuses / socket states / last_update "
                         "/ event symbolic; real rtr_stop + rtr_change_socket_state underneath" % (entry, ng),
                    bounds={"groups": ng, "sockets_per_group": "<=2", "steps": 1}, stubs=MGR_STUBS)


def jobs(tier):
    J = [mjob("config_ng1", "harness_config", 1, timeout=1200)]
    if tier == "thorough":
        J += [mjob("config_ng2", "harness_config", 2, timeout=3000)]  # (3 groups: 400 k SSA steps, out of 12 GB: left out)
    for n in (1, 2, 3):
        for g in range(n):
            for k in (0, 1):
                for slen in (1, 2):
                    if k >= slen:
                        continue
                    J.append(mjob("step_ng%d_g%d_s%d_len%d" % (n, g, k, slen), "harness_step", n,
                                  extra=["EV_G=%d" % g, "EV_K=%d" % k, "SLEN=%d" % slen]))
    return J
