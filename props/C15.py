"""C15 -- cache-group failover honours the preference order."""
from engine import core

INFO = {"outside": "wip", "assumptions": []}
MANIFEST = {"text": "wip", "note": "wip"}
MGR_SOURCES = ["rtrlib/rtr/rtr.c", "rtrlib/rtr/packets.c", "third-party/tommyds/tommylist.c"]
MGR_STUBS = ["rtr_start: recorder", "pfx/spki table init/free/src_remove: no-op recorders", "tr_close/tr_free/pthread_cancel/"
             "pthread_join: no-ops", "qsort: insertion-sort model", "typed size-class allocator", "rwlock: sequential model"]


def mjob(name, entry, ng, timeout=900, extra=None):
    us = dict([("harness_step.%d" % i, 40) for i in range(30)] + [("harness_config.%d" % i, 40) for i in range(30)] +
              [("arbitrary_groups.%d" % i, 12) for i in range(4)] + [("locate.0", 8), ("locate.1", 8), ("vl_slot.0", 6), ("vl_slot.1", 6), ("rtr_mgr_cb", 3), ("rtr_stop", 3),
               ("rtr_change_socket_state", 3), ("set_status", 4), ("_rtr_mgr_cb_state_established", 2),
               ("rtr_mgr_close_less_preferable_groups", 2), ("_rtr_mgr_cb_state_shutdown", 3), ("_rtr_mgr_cb_state_error", 2)])
    return core.Job(name=name, harness="mgr_unit.c", entry=entry, defines=["NG=%d" % ng] + (extra or []), unwind=ng + 4, unwindset=us,
                    timeout=timeout, mem_gb=12, sources=MGR_SOURCES, object_bits=11,
                    desc="real rtr_mgr.c (%s) with %d groups x <=2 sockets, preferences / statuses / socket states / last_update "
                         "/ event symbolic; real rtr_stop + rtr_change_socket_state underneath" % (entry, ng),
                    bounds={"groups": ng, "sockets_per_group": "<=2", "steps": 1}, stubs=MGR_STUBS)


def jobs(tier):
    J = [mjob("config_ng%d" % n, "harness_config", n) for n in (1, 2, 3)]
    for n in (1, 2, 3):
        for g in range(n):
            for k in (0, 1):
                J.append(mjob("step_ng%d_g%d_s%d" % (n, g, k), "harness_step", n, extra=["EV_G=%d" % g, "EV_K=%d" % k]))
    return J
