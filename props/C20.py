"""C20 -- state and status names are defined for every enumerator.

The harness is GENERATED on every run from the enumerator lists of the current public
headers (gcc -E, so macros/comments are resolved); the solver then decides, for the real
rtr_state_to_str / rtr_mgr_status_to_str:
  * every declared enumerator E maps to the string "E";
  * every other int value (symbolic, full 32 bit) maps to NULL;
  * no read outside the name tables (CBMC bounds / pointer checks on).
"""
import os
import re
import subprocess

from engine import core

INFO = {
    "outside": "nothing: the enumerator list is complete by construction and the out-of-enum value is a "
               "free 32-bit int",
    "assumptions": ["enumerator lists are taken from gcc -E of rtrlib/rtr/rtr.h and rtrlib/rtr_mgr.h of the "
                    "current tree", "CBMC models an enum argument as a 32-bit int"],
}


MANIFEST = {
    "text": "Exhaustive within the C type: the solver decides the real rtr_state_to_str and rtr_mgr_status_to_str "
            "for every enumerator declared in the current headers (harness generated from the headers on each run) and "
            "for every other 32-bit value, with CBMC's array-bounds and pointer checks on. Small finite domain, so "
            "bounded symbolic checking covers it completely.",
    "note": "Trusted: gcc -E output of the two public headers as the list of declared enumerators; CBMC's C semantics "
            "(enum passed as 32-bit int).",
    "technique": "CBMC symbolic execution of rtr.c / rtr_mgr.c to_str functions, generated harness, symbolic enum value",
}


def enumerators(header, enum_name):
    # same include path as the goto-cc builds (incl. the shadow dir for the cmake-generated config.h / rtrlib.h of an
    # unconfigured tree); a header that cannot be preprocessed or an enum that is not found is a driver error, never an
    # empty list (an empty list would turn "every other value yields NULL" into a false alarm)
    inc = core.include_flags(os.path.join(core.WORK_ROOT, "gen"))
    p = subprocess.run(["gcc", "-E", "-P"] + inc + [os.path.join(core.REPO, header)],
                       stdout=subprocess.PIPE, stderr=subprocess.PIPE, text=True)
    m = re.search(r"enum\s+%s\s*\{([^}]*)\}" % enum_name, p.stdout)
    if p.returncode != 0 or not m:
        raise RuntimeError("C20: cannot read enum %s from %s: %s" % (enum_name, header, p.stderr[-400:]))
    out = []
    for part in m.group(1).split(","):
        part = part.strip()
        if not part:
            continue
        out.append(part.split("=")[0].strip())
    return out


def gen():
    gdir = os.path.join(core.WORK_ROOT, "gen")
    os.makedirs(gdir, exist_ok=True)
    path = os.path.join(gdir, "C20_gen.c")
    st = enumerators("rtrlib/rtr/rtr.h", "rtr_socket_state")
    ms = enumerators("rtrlib/rtr_mgr.h", "rtr_mgr_status")
    L = ['#include "verif.h"', '#include "rtrlib/rtr/rtr.h"', '#include "rtrlib/rtr_mgr.h"',
         "static bool streq(const char *a, const char *b){ for (int i = 0; i < 48; i++) {"
         " if (a[i] != b[i]) return false; if (!a[i]) return true; } return false; }", ""]
    for fn, enum, names, ent in (("rtr_state_to_str", "rtr_socket_state", st, "harness_state"),
                                 ("rtr_mgr_status_to_str", "rtr_mgr_status", ms, "harness_status")):
        L.append("void %s(void) {" % ent)
        L.append("\tconst char *s;")
        for e in names:
            L.append("\ts = %s(%s);" % (fn, e))
            L.append('\tVASSERT(s != NULL, "%s: enumerator %s has a name");' % (fn, e))
            L.append('\tif (s) VASSERT(streq(s, "%s"), "%s(%s) is the enumerator\'s name");' % (e, fn, e))
        L.append('\tint v = ND(int, "v");')
        if names:
            L.append("\tVASSUME(%s);" % " && ".join("v != (int)%s" % e for e in names))
        L.append("\ts = %s((enum %s)v);" % (fn, enum))
        L.append('\tVASSERT(s == NULL, "%s: value outside the enumeration yields NULL");' % fn)
        L.append('\tVWITNESS("end of %s");' % ent)
        L.append("}")
    open(path, "w").write("\n".join(L) + "\n")
    return path, st, ms


def jobs(tier):
    path, st, ms = gen()
    common = dict(harness=path, memory_checks=True, unwind=50, timeout=300, mem_gb=4,
                  stubs=["none (leaf functions)"])
    return [
        core.Job(name="state_to_str", entry="harness_state", sources=["rtrlib/rtr/rtr.c"],
                 desc="rtr_state_to_str over all %d declared enumerators %s and a symbolic out-of-enum int"
                      % (len(st), st),
                 bounds={"enumerators": st, "other_values": "all 2^32 - %d" % len(st)}, **common),
        core.Job(name="mgr_status_to_str", entry="harness_status", sources=["rtrlib/rtr_mgr.c"],
                 desc="rtr_mgr_status_to_str over all %d declared enumerators %s and a symbolic out-of-enum int"
                      % (len(ms), ms),
                 bounds={"enumerators": ms, "other_values": "all 2^32 - %d" % len(ms)}, **common),
    ]
