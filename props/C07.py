"""C07 -- data that can no longer be refreshed expires; stopping a socket removes its data."""
from .fsm_common import fsm_job
from .sync_common import sync_job

INFO = {"outside": "wip", "assumptions": []}
MANIFEST = {"text": "wip", "note": "wip"}


def jobs(tier):
    B = 8 if tier == "quick" else 12
    return [fsm_job("fsm_expiry_b%d" % B, "ASSERT_C07", B, extra=["CLOCK_MAY_FAIL"]),
            fsm_job("stop_removes_data", "ASSERT_C07", 6, entry="harness_stop")]
