"""C07 -- data that can no longer be refreshed expires; stopping a socket removes its data."""
from .fsm_common import fsm_job
from .sync_common import *

INFO = {"outside": "wip", "assumptions": []}
MANIFEST = {"text": "wip", "note": "wip"}


def jobs(tier):
    B = 8 if tier == "quick" else 12
    J = [fsm_job("fsm_expiry_b%d" % B, "ASSERT_C07", B, extra=["CLOCK_MAY_FAIL"], timeout=2400),
         fsm_job("stop_removes_data", "ASSERT_C07", 6, entry="harness_stop")]
    fam = [[CR, EOD], [CR, V4, EOD], [CR, KEY, EOD]] + fam_after_cr() + fam_after_cr([V4]) + fam_openers()
    if tier == "thorough":
        fam += fam_complete(tier)[3:] + fam_after_cr([V4, KEY])
    for sk in fam:
        J.append(sync_job("ASSERT_C07", sk, extra=["NO_TABLE_FAIL"] if len(sk) >= 6 else None, timeout=2400 if len(sk) >= 6 else 900))
    return J
