"""C07 -- data that can no longer be refreshed expires; stopping a socket removes its data."""
from .fsm_common import fsm_job
from .sync_common import *

INFO = {
    "outside": 'as C05',
    "assumptions": ['as C05', 'time_t arithmetic on 64-bit time_t'],
}
MANIFEST = {
    "text": "(a) real rtr_fsm_start loop from an arbitrary SInv state with a symbolic clock (which may also fail) and symbolic intervals: at every connection attempt, judged on the clock reading the code itself obtained, records older than the expire interval have been removed and the conversation restarts with a Reset Query; rtr_stop removes the socket's data. (b) real rtr_sync on skeletons: last_update is only stamped by a successful exchange and survives every failed or interrupted one while the cache's records remain (the invariant (a) relies on).",
    "note": "Bounded: B = 8 / 12 interactions; 'records present' is a ghost flag set by the sync contract and cleared by the table purge stubs; table model in (b).",
    "technique": 'CBMC k-step induction on real rtr_fsm_start with symbolic clock + rtr_sync skeleton unit',
}


def jobs(tier):
    B = 8 if tier == "quick" else 12
    J = [fsm_job("fsm_expiry_b%d" % B, "ASSERT_C07", B, extra=["CLOCK_MAY_FAIL"], timeout=2400),
         fsm_job("stop_removes_data", "ASSERT_C07", 6, entry="harness_stop")]
    fam = [[CR, EOD], [CR, V4, EOD], [CR, KEY, EOD]] + fam_after_cr() + fam_after_cr([V4]) + fam_openers()
    if tier == "thorough":
        fam += fam_complete(tier)[3:] + fam_after_cr([V4, KEY])
    for sk in fam:
        J.append(sync_job("ASSERT_C07", sk, extra=["NO_TABLE_FAIL"] if len(sk) >= 6 else None, timeout=2400 if len(sk) >= 6 else 900))
    return J
