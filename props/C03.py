"""C03 -- a cache response is applied completely or not at all."""
from .sync_common import *

INFO = {"outside": "wip", "assumptions": []}
MANIFEST = {"text": "wip", "note": "wip"}


def jobs(tier):
    return [sync_job("ASSERT_C03", [CR, EOD]), sync_job("ASSERT_C03", [CR, V4, EOD]), sync_job("ASSERT_C03", [CR, V4, V4, EOD]), sync_job("ASSERT_C03", [CR, V4, V4, V4, EOD]), sync_job("ASSERT_C03", [CR, V4, V4, V4, V4, EOD], extra=["NO_TABLE_FAIL"])]
