"""C03 -- a cache response is applied completely or not at all."""
from .sync_common import *

INFO = {
    "outside": 'responses with more than 4 payload PDUs (3 in the quick tier), skeletons not in the families, more than 2 pre-existing prefix records + 1 key per cache',
    "assumptions": ['rtr_receive_pdu contract (stub_receive_pdu)', 'table model adequacy (C02/C09/C10)', 'SInv on entry of rtr_sync (is_resetting => no session and no timestamp; session => timestamp; records => timestamp)'],
}
MANIFEST = {
    "text": "Bounded model checking of the real rtr_sync + rtr_sync_receive_and_store_pdus + store/apply/undo code on a family of exchange SKELETONS (which PDU type or receive failure at which position; 53 quick / ~90 thorough, up to 4 payload PDUs): within a skeleton every PDU field, flag, session id, serial, the socket state and the pre-state of both tables are symbolic. The solver decides, for universally quantified witness records, 'after success = previous + announced - withdrawn (or exactly the announced set on reload), serial = EOD serial' and 'after failure = untouched and same next query, or everything of this cache gone and Reset Query next', and that other caches' records never change.",
    "note": 'Bounded: skeleton families listed in the evidence file; tables are the array model lib/table_model.h whose adequacy is C02/C09/C10; rtr_receive_pdu is replaced by its contract (proved on the real function in rtr_recv.c jobs of C04/C13/C14); RTR_MAX_PDU_LEN and the PDU store increment are scaled through RTRLIB_VERIF hooks (160 / 2) so that the store regrowth path runs. No native replay for this unit (call replacement is done on the goto binary).',
    "technique": 'CBMC on real rtr_sync with skeleton-enumerated PDU sequences, contract stubs, symbolic fields and table pre-state',
}


def jobs(tier):
    J = []
    for sk in fam_complete(tier):
        big = len(sk) >= 6
        J.append(sync_job("ASSERT_C03", sk, timeout=2400 if big else 900, extra=["NO_TABLE_FAIL"] if big else None,
                          weight=2 if big else 1))
    interrupted = fam_after_cr([V4]) + fam_after_cr([V4, KEY]) if tier == "thorough" else fam_after_cr([V4])
    for sk in fam_after_cr() + interrupted:
        J.append(sync_job("ASSERT_C03", sk))
    for sk in fam_openers():
        J.append(sync_job("ASSERT_C03", sk))
    return J
