"""C03 -- a cache response is applied completely or not at all."""
from .sync_common import *

INFO = {"outside": "wip", "assumptions": []}
MANIFEST = {"text": "wip", "note": "wip"}


def jobs(tier):
    J = []
    for sk in fam_complete(tier):
        big = len(sk) >= 6
        J.append(sync_job("ASSERT_C03", sk, timeout=2400 if big else 900, extra=["NO_TABLE_FAIL"] if big else None,
                          weight=2 if big else 1))
    interrupted = fam_after_cr([V4]) + fam_after_cr([V4, KEY]) if tier == "thorough" else fam_after_cr([V4])
    for sk in fam_after_cr() + interrupted:
        J.append(sync_job("ASSERT_C03", sk))
    for sk in fam_openers():
        J.append(sync_job("ASSERT_C03", sk))
    return J
