"""C12 -- generated BGPsec signatures verify under an independent RFC 8205 implementation."""
from . import C11

INFO = {"outside": "wip", "assumptions": []}
MANIFEST = {"text": "wip", "note": "wip"}


def jobs(tier):
    J = [C11.bjob("harness_sign", 1, 3, 24), C11.bjob("harness_sign", 2, 3, 24), C11.bjob("harness_sign", 2, 3, 33)]
    if tier == "thorough":
        J += [C11.bjob("harness_sign", 3, 3, 24, timeout=3000), C11.bjob("harness_sign", 3, 4, 128, timeout=3000)]
    return J
