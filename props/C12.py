"""C12 -- generated BGPsec signatures verify under an independent RFC 8205 implementation."""
from . import C11

INFO = {
    "outside": 'as C11',
    "assumptions": ['as C11'],
}
MANIFEST = {
    "text": 'Same stub layer for rtr_bgpsec_generate_signature: the bytes signed equal the RFC 8205 signing sequence produced by the same independent serialiser that C11 checks validation against (so signing layout == validation layout at the corresponding offset), the returned segment carries exactly what ECDSA_sign produced, and unloadable keys / unsupported suite / AFI / wrong counts yield their codes.',
    "note": "That ECDSA_sign produces a well-formed DER signature and that it verifies under the matching public key is OpenSSL's contract (environment).",
    "technique": 'CBMC on real bgpsec.c signing path with OpenSSL API stubs',
}


def jobs(tier):
    J = [C11.bjob("harness_sign", 1, 3, 24), C11.bjob("harness_sign", 2, 3, 24), C11.bjob("harness_sign", 2, 3, 33), C11.bjob("harness_sign", 2, 3, 0), C11.bjob("harness_sign", 1, 3, 0)]
    if tier == "thorough":
        J += [C11.bjob("harness_sign", 3, 3, 24, timeout=3000), C11.bjob("harness_sign", 3, 4, 128, timeout=3000)]
    return J
