"""C09 -- update callbacks are a complete and exact change log of the prefix table."""
from . import C02
from .sync_common import *

INFO = {
    "outside": 'as C02',
    "assumptions": ['as C02'],
}
MANIFEST = {
    "text": 'The C02 single-step harnesses run with a recording update callback: for a universally quantified witness record, added/removed callbacks equal the change of its multiplicity for add, remove, remove-by-source; the real pfx_table_notify_diff on two arbitrary Inv-valid tables reports exactly the net difference of one cache; pfx_table_free reports every record removed exactly once; rtr_sync skeletons (table model) show the net callback effect of a rolled-back or reloaded response equals the net table change.',
    "note": "Bounded as C02 (notify_diff on single-node tables in the quick tier). Callbacks issued by the table model in the rtr_sync unit mirror the real containers' behaviour established here.",
    "technique": 'CBMC single-step induction with callback recorder on real trie-pfx.c',
}


def jobs(tier):
    J = C02.jobs(tier, prop="ASSERT_C09")
    J = [j for j in J if "foreach" not in j.name]
    J.append(C02.op_job("notify_diff_v4_d0e1", "harness_notify_diff", 0, 1, 4, 1500, prop="ASSERT_C09", harness="pfx_notify.c",
                        extra=["TL_OTHER_EMPTY"], mem=28, weight=6,
                        what="pfx_table_notify_diff on two arbitrary Inv-valid tables of <=1 IPv4 node + <=1 IPv6 node with one record each"))
    J.append(C02.op_job("free_v4_d1", "harness_free", 1, 2, 4, 1500, prop="ASSERT_C09", harness="pfx_notify.c"))
    J[-2].solver = ["--sat-solver", "cadical"]  # MiniSat runs out of memory on the two-table formula
    if tier == "thorough":
        J.append(C02.op_job("notify_diff_v4_d0e2", "harness_notify_diff", 0, 2, 4, 5400, prop="ASSERT_C09", harness="pfx_notify.c", weight=3, mem=24))
        J.append(C02.op_job("notify_diff_v6_d0", "harness_notify_diff", 0, 2, 6, 3600, prop="ASSERT_C09", harness="pfx_notify.c", weight=2))
        J.append(C02.op_job("free_v6_d1", "harness_free", 1, 1, 6, 3600, prop="ASSERT_C09", harness="pfx_notify.c", weight=2))
    # roll-back of a failed response and reload: net callback effect (table model; real notify_diff above)
    for sk in [[CR, V4, EOD], [CR, V4, V4, EOD], [CR, V4, T_OUT], [CR, V4, V4, V4, EOD]][: 4 if tier == "thorough" else 3]:
        J.append(sync_job("ASSERT_C03", sk))
    return J
