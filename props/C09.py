"""C09 -- update callbacks are a complete and exact change log of the prefix table."""
from . import C02
from .sync_common import *

INFO = {
    "outside": 'as C02',
    "assumptions": ['as C02'],
}
MANIFEST = {
    "text": 'The C02 single-step harnesses run with a recording update callback: for a universally quantified witness record, added/removed callbacks equal the change of its multiplicity for add, remove, remove-by-source; the real pfx_table_notify_diff on two arbitrary Inv-valid tables reports exactly the net difference of one cache; pfx_table_free reports every record removed exactly once; rtr_sync skeletons (table model) show the net callback effect of a rolled-back or reloaded response equals the net table change.',
    "note": "Bounded as C02 (notify_diff on single-node tables in the quick tier). Callbacks issued by the table model in the rtr_sync unit mirror the real containers' behaviour established here.",
    "technique": 'CBMC single-step induction with callback recorder on real trie-pfx.c',
}


def jobs(tier):
    J = C02.jobs(tier, prop="ASSERT_C09")
    J = [j for j in J if "foreach" not in j.name]
    # pfx_table_notify_diff(new, old): the shapes of the two tables are enumerated by the driver (which nodes exist, how many
    # records each holds), every prefix, length, AS, max length, source and the reloading socket are symbolic.  (The job with
    # symbolic shapes, notify_diff_v4_d0e1, needs 10 min / 28 GB for tables of <= 1 node and is thorough-only now.)
    nd = [("v4_empty_n1", 4, 0, 1, 0, 1, "1"), ("v4_n1_empty", 4, 0, 1, 1, 0, "1"), ("v4_n1_n1", 4, 0, 1, 1, 1, "1"),
          ("v4_n2_n2", 4, 0, 2, 1, 1, "2"), ("v4_n2_empty", 4, 0, 2, 1, 0, "2"), ("v4_empty_n2", 4, 0, 2, 0, 1, "2"),
          ("v4_rootleft_rootleft", 4, 1, 1, 3, 3, "1,1,1"), ("v4_rootright_rootleft", 4, 1, 1, 5, 3, "1,1,1"),
          ("v4_root2leaves_n1", 4, 1, 1, 7, 1, "1,1,1"), ("v4_n1_root2leaves", 4, 1, 1, 1, 7, "1,1,1"),
          ("v6_n1_n1", 6, 0, 1, 1, 1, "1"), ("v6_n2_n2", 6, 0, 2, 1, 1, "2")]
    if tier == "thorough":
        nd += [("v4_root2leaves_root2leaves", 4, 1, 1, 7, 7, "1,1,1"), ("v4_n3_n3", 4, 0, 3, 1, 1, "3"),
               ("v6_rootleft_rootright", 6, 1, 1, 3, 5, "1,1,1"), ("v6_root2leaves_root2leaves", 6, 1, 1, 7, 7, "1,1,1")]
    for nm, fam, td, te, sh_new, sh_old, nrecs in nd:
        J.append(C02.op_job("notify_diff_%s" % nm, "harness_notify_diff", td, te, fam, 2400, prop="ASSERT_C09", harness="pfx_notify.c",
                            extra=["TL_OTHER_EMPTY", "TL_SHAPE=%d" % sh_new, "TL_SHAPE_OLD=%d" % sh_old, "TL_NRECS=%s" % nrecs], mem=16, weight=2,
                            what="pfx_table_notify_diff(new, old) on IPv%d tables of fixed shapes new=%s old=%s (slot masks %d / %d, %s record(s) per "
                                 "node; all field values, the reloading socket and the witness record symbolic)"
                                 % (fam, nm.split("_")[1], nm.split("_")[2], sh_new, sh_old, nrecs.split(",")[0])))
        J[-1].solver = ["--sat-solver", "cadical"]
    if tier == "thorough":
        J.append(C02.op_job("notify_diff_v4_d0e1", "harness_notify_diff", 0, 1, 4, 3000, prop="ASSERT_C09", harness="pfx_notify.c",
                            extra=["TL_OTHER_EMPTY"], mem=28, weight=6,
                            what="pfx_table_notify_diff on two arbitrary Inv-valid tables of <=1 IPv4 node + <=1 IPv6 node with one record each"))
        J[-1].solver = ["--sat-solver", "cadical"]  # MiniSat runs out of memory on the two-table formula
    J.append(C02.op_job("free_v4_d1", "harness_free", 1, 2, 4, 1500, prop="ASSERT_C09", harness="pfx_notify.c"))
    if tier == "thorough":
        J.append(C02.op_job("free_v6_d1", "harness_free", 1, 1, 6, 3600, prop="ASSERT_C09", harness="pfx_notify.c", weight=2))
    # roll-back of a failed response and reload: net callback effect (table model; real notify_diff above)
    for sk in [[CR, V4, EOD], [CR, V4, V4, EOD], [CR, V4, T_OUT], [CR, V4, V4, V4, EOD]][: 4 if tier == "thorough" else 3]:
        J.append(sync_job("ASSERT_C03", sk))
    return J
