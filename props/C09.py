"""C09 -- update callbacks are a complete and exact change log of the prefix table."""
from . import C02
from .sync_common import *

INFO = {"outside": "wip", "assumptions": []}
MANIFEST = {"text": "wip", "note": "wip"}


def jobs(tier):
    J = C02.jobs(tier, prop="ASSERT_C09")
    J = [j for j in J if "foreach" not in j.name]
    J.append(C02.op_job("notify_diff_v4_d0", "harness_notify_diff", 0, 2, 4, 1500, prop="ASSERT_C09", harness="pfx_notify.c"))
    J.append(C02.op_job("free_v4_d1", "harness_free", 1, 2, 4, 1500, prop="ASSERT_C09", harness="pfx_notify.c"))
    if tier == "thorough":
        J.append(C02.op_job("notify_diff_v4_d1e1", "harness_notify_diff", 1, 1, 4, 3600, prop="ASSERT_C09", harness="pfx_notify.c", weight=3, mem=24))
        J.append(C02.op_job("notify_diff_v6_d0", "harness_notify_diff", 0, 2, 6, 3600, prop="ASSERT_C09", harness="pfx_notify.c", weight=2))
        J.append(C02.op_job("free_v6_d1", "harness_free", 1, 1, 6, 3600, prop="ASSERT_C09", harness="pfx_notify.c", weight=2))
    # roll-back of a failed response and reload: net callback effect (table model; real notify_diff above)
    for sk in [[CR, V4, EOD], [CR, V4, V4, EOD], [CR, V4, T_OUT], [CR, V4, V4, V4, EOD]][: 4 if tier == "thorough" else 3]:
        J.append(sync_job("ASSERT_C03", sk))
    return J
