"""C06 -- a full reload replaces a cache's data atomically for concurrent readers (reduced claim)."""
from . import C02, C10
from .sync_common import *

INFO = {"outside": "wip", "assumptions": []}
MANIFEST = {"text": "wip", "note": "wip"}


def jobs(tier):
    J = []
    fam = [[CR, EOD], [CR, V4, EOD], [CR, KEY, EOD], [CR, V4, V4, EOD], [CR, V4, KEY, EOD], [CR, V6, EOD]] + fam_after_cr() + fam_after_cr([V4])
    if tier == "thorough":
        fam += fam_complete(tier)[6:] + fam_after_cr([V4, KEY])
    for sk in fam:
        J.append(sync_job("ASSERT_C06", sk, extra=["NO_TABLE_FAIL"], timeout=2400 if len(sk) >= 6 else 900))
    J.append(C02.op_job("copy_swap_v4_d1", "harness_copy_swap", 1, 1, 4, 1500, prop="ASSERT_C06", harness="pfx_notify.c"))
    J.append(C10.spki_job([1, 1, 4], name_prefix="reload_"))
    return J
