"""C06 -- a full reload replaces a cache's data atomically for concurrent readers (reduced claim)."""
from . import C02, C10
from .sync_common import *

INFO = {
    "outside": 'real thread interleavings (reduction argument), allocation failure during reload',
    "assumptions": ['rwlock serialisability', 'table model adequacy'],
}
MANIFEST = {
    "text": "REDUCED claim (interleavings are not symbolic: CBMC refuses this heap under threads). Readers hold the table rwlock for a whole query (C16), so they can only observe the live tables between write sections. The solver decides on the real reload branch of rtr_sync (skeleton families, symbolic old/new sets) that the live tables are written exactly once each -- by the swap of the complete shadow table -- on success and not at all on failure; on the real prefix containers (driver-enumerated table shapes, symbolic data) that copy_except_socket yields exactly the other caches' records in a valid table without touching the live one and that swap exchanges both roots inside one write section of each table; on the real router-key containers that swap exchanges hash table + list completely inside one write section of each table (the router-key copy: empty table and failure paths only, see DESIGN.md section 8).",
    "note": "Trusted and NOT machine-checked: POSIX rwlock semantics and the step from 'one publication point' to 'every interleaving sees old or new'. Prefix and router-key tables are swapped under two different locks, so atomicity is per table. Bounded as C03.",
    "technique": 'CBMC on real rtr_sync reload branch with live-table write ledger + real pfx/spki copy & swap units (sequential reduction)',
}


def jobs(tier):
    J = []
    fam = [[CR, EOD], [CR, V4, EOD], [CR, KEY, EOD], [CR, V4, V4, EOD], [CR, V4, KEY, EOD], [CR, V6, EOD]] + fam_after_cr() + fam_after_cr([V4])
    if tier == "thorough":
        fam += fam_complete(tier)[6:] + fam_after_cr([V4, KEY])
    for sk in fam:
        J.append(sync_job("ASSERT_C06", sk, extra=["NO_TABLE_FAIL"], timeout=2400 if len(sk) >= 6 else 900))
    # The real pfx_table_copy_except_socket / pfx_table_swap unit (harness_copy_swap in pfx_notify.c) is NOT part of
    # either tier: its symbolic execution did not finish within 15 minutes even for one-record tables (for_each
    # callback -> pfx_table_add -> trie_insert on a second symbolic table).  Run it with VERIF_C06_COPYSWAP=1.
    # Fixed-shape variants do finish: single node with 1 / 2 records, two nodes with one record each
    shapes = [("v4_n1", 4, 0, 1, 1, "1"), ("v4_n2", 4, 0, 2, 1, "2"), ("v4_n3", 4, 0, 3, 1, "3"), ("v4_rootleft", 4, 1, 1, 3, "1,1,1"),
              ("v4_rootright", 4, 1, 1, 5, "1,1,1"), ("v4_root2leaves", 4, 1, 1, 7, "1,1,1"), ("v4_root2leaves_e2", 4, 1, 2, 7, "2,1,2"),
              ("v6_n2", 6, 0, 2, 1, "2"), ("v6_root2leaves", 6, 1, 1, 7, "1,1,1")]
    if tier == "thorough":
        shapes += [("v4_leafL_innerR", 4, 2, 1, 39, "1,1,1,1,1,1,1"), ("v4_innerL_leafR", 4, 2, 1, 15, "1,1,1,1,1,1,1"),
                   ("v4_full_d2", 4, 2, 1, 127, "1,1,1,1,1,1,1")]
    for nm, fam, td, te, shape, nrecs in shapes:
        J.append(C02.op_job("copy_swap_%s" % nm, "harness_copy_swap", td, te, fam, 2400, prop="ASSERT_C06", harness="pfx_notify.c",
                            extra=["TL_OTHER_EMPTY", "TL_SHAPE=%d" % shape, "TL_NRECS=%s" % nrecs], mem=16, weight=2,
                            what="real pfx_table_copy_except_socket + pfx_table_swap on a trie of fixed shape %s (all field values and "
                                 "the reloading socket symbolic): the shadow table holds exactly the other caches' records, is a valid "
                                 "table, the live table is untouched by the copy; the swap exchanges both roots inside one write section "
                                 "of each table" % nm))
    # router-key side: the structural swap unit and the copy into a fresh table (defined with C10's jobs)
    from . import C10
    J += [j for j in C10.jobs("quick") if j.name in ("spki_swap", "hist_CA")]
    import os
    if os.environ.get("VERIF_C06_COPYSWAP"):
        J.append(C02.op_job("copy_swap_v4_d0e1", "harness_copy_swap", 0, 1, 4, 7200, prop="ASSERT_C06", harness="pfx_notify.c",
                            extra=["TL_OTHER_EMPTY"], mem=28, weight=6))
    return J
