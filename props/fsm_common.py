from engine import core
from .common import PKT_SOURCES

FSM_STUBS = ["rtr_sync -> stub_rtr_sync (contract proved on the real function in harness/rtr_sync_unit.c)",
             "rtr_wait_for_sync -> stub_wait (proved in harness/rtr_wait_unit.c)",
             "tr_open/tr_close/sleep/clock/pthread_*: environment stubs with symbolic outcomes and symbolic time",
             "pfx_table_src_remove/spki_table_src_remove: ghost 'cache has records' flags",
             "tr_send_all: wire monitor decoding every query; may fail",
             "hook RTRLIB_VERIF_FSM_KEEP_STATE: the loop is entered in an arbitrary state"]


def fsm_job(name, prop_define, budget, timeout=900, entry="harness", extra=None):
    return core.Job(
        name=name, harness="rtr_fsm.c", entry=entry,
        defines=["BUDGET=%d" % budget, prop_define, "RTRLIB_VERIF_FSM_KEEP_STATE", "RTRLIB_VERIF_MAX_PDU_LEN=160"] + (extra or []),
        unwind=budget + 3, unwindset={"tr_send_all.0": 20}, timeout=timeout, mem_gb=12, sources=PKT_SOURCES, object_bits=10,
        desc="real rtr_fsm_start loop + real query senders from an arbitrary socket state under SInv for %d environment "
             "interactions; sync outcomes, transport faults, clock, session ids and serials symbolic" % budget,
        bounds={"environment_interactions": budget, "session": "16 bit", "serial": "32 bit", "time": "32-bit seconds"},
        stubs=FSM_STUBS)
