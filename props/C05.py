"""C05 -- queries carry the last completed session and serial; foreign sessions refused."""
from .fsm_common import fsm_job
from .sync_common import *

INFO = {
    "outside": 'more than B interactions without passing through an SInv state (none: SInv is asserted at every interaction)',
    "assumptions": ['rtr_sync / rtr_wait_for_sync contracts (asserted on the real functions in the rtr_sync and wait units)', 'SInv for the arbitrary start state'],
}
MANIFEST = {
    "text": 'Two solver-checked layers: (a) the real rtr_fsm_start loop with the real query senders, entered in an ARBITRARY socket state under the inductive invariant SInv, for B environment interactions (sync outcomes, faults, clock, 16-bit sessions and 32-bit serials incl. wrap-around symbolic): a wire monitor decodes every query and demands Serial Query(s,n) of the last completed synchronisation or a Reset Query after Cache Reset / no-data / expiry / stop; SInv is re-asserted at every step, so the k-step result extends to runs of any length. (b) the real rtr_sync on exchange skeletons: a Cache Response or End of Data with a foreign session fails and applies nothing.',
    "note": 'Bounded: B = 6 (quick) / 10 (thorough) interactions from an arbitrary SInv state; rtr_sync is represented in (a) by its contract stub whose clauses are asserted on the real function in (b). Hook RTRLIB_VERIF_FSM_KEEP_STATE lets the loop start in any state.',
    "technique": 'CBMC k-step induction on real rtr_fsm_start with contract stubs + rtr_sync skeleton unit',
}


def jobs(tier):
    B = 6 if tier == "quick" else 10
    J = [fsm_job("fsm_queries_b%d" % B, "ASSERT_C05", B, timeout=1800),
         fsm_job("stop_resets_session", "ASSERT_C05", 6, entry="harness_stop")]
    fam = fam_complete(tier) if tier == "thorough" else [[CR, EOD], [SN, CR, EOD], [CR, V4, EOD], [CR, KEY, EOD], [CR, V4, V6, EOD]]
    for sk in fam + fam_after_cr() + fam_openers():
        J.append(sync_job("ASSERT_C05", sk, extra=["NO_TABLE_FAIL"] if len(sk) >= 6 else None, timeout=2400 if len(sk) >= 6 else 900))
    return J
