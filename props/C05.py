"""C05 -- queries carry the last completed session and serial; foreign sessions refused."""
from .fsm_common import fsm_job
from .sync_common import sync_job

INFO = {"outside": "wip", "assumptions": []}
MANIFEST = {"text": "wip", "note": "wip"}


def jobs(tier):
    B = 6 if tier == "quick" else 10
    return [fsm_job("fsm_queries_b%d" % B, "ASSERT_C05", B),
            fsm_job("stop_resets_session", "ASSERT_C05", 6, entry="harness_stop")]
