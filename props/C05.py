"""C05 -- queries carry the last completed session and serial; foreign sessions refused."""
from .fsm_common import fsm_job
from .sync_common import *

INFO = {"outside": "wip", "assumptions": []}
MANIFEST = {"text": "wip", "note": "wip"}


def jobs(tier):
    B = 6 if tier == "quick" else 10
    J = [fsm_job("fsm_queries_b%d" % B, "ASSERT_C05", B, timeout=1800),
         fsm_job("stop_resets_session", "ASSERT_C05", 6, entry="harness_stop")]
    fam = fam_complete(tier) if tier == "thorough" else [[CR, EOD], [SN, CR, EOD], [CR, V4, EOD], [CR, KEY, EOD], [CR, V4, V6, EOD]]
    for sk in fam + fam_after_cr() + fam_openers():
        J.append(sync_job("ASSERT_C05", sk, extra=["NO_TABLE_FAIL"] if len(sk) >= 6 else None, timeout=2400 if len(sk) >= 6 else 900))
    return J
