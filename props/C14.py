"""C14 -- every PDU sent is well-formed; error reports echo the offending PDU exactly."""
from engine import core
from .common import recv_job

INFO = {"outside": "wip", "assumptions": []}
MANIFEST = {"text": "wip", "note": "wip"}


def jobs(tier):
    L = 48 if tier == "quick" else 96
    return [recv_job(core, "recv_reports_L%d" % L, "ASSERT_C14", L, False)]
