"""C14 -- every PDU sent is well-formed; error reports echo the offending PDU exactly."""
from engine import core
from .common import recv_job, PKT_SOURCES
from .fsm_common import fsm_job
from .sync_common import *

INFO = {"outside": "wip", "assumptions": []}
MANIFEST = {"text": "wip", "note": "wip"}


def jobs(tier):
    L = 48 if tier == "quick" else 96
    J = [recv_job(core, "recv_reports_L%d" % L, "ASSERT_C14", L, False)]
    for kind, nm, text in ((4, "ipv4", 0), (6, "ipv6", 9), (9, "router_key", 1), (70, "eod_v0", 2), (71, "eod_v1", 0),
                           (8, "header_only", 0), (8, "header_only_notext", 9), (0, "no_pdu", 0), (0, "no_pdu_notext", 3)):
        J.append(core.Job(name="errpdu_" + nm, harness="rtr_errpdu_unit.c", entry="harness", defines=["KIND=%d" % kind, "TEXT=%d" % text],
                          unwind=230, timeout=600, sources=PKT_SOURCES, object_bits=10,
                          desc="real rtr_send_error_pdu_from_host/rtr_send_error_pdu/rtr_send_pdu + byte-order conversion for an "
                               "offending %s PDU with all 8*len bits symbolic, any error code, fixed text" % nm,
                          bounds={"offending_pdu": nm, "fields": "all bits symbolic"},
                          stubs=["tr_send_all: wire monitor (full copy of the report)", "lrtr_dbg: empty"]))
    J.append(core.Job(name="errpdu_refusals", harness="rtr_errpdu_unit.c", entry="harness_refusals", unwind=230, timeout=600,
                      sources=PKT_SOURCES, object_bits=10, desc="no report about an Error Report",
                      bounds={}, stubs=["tr_send_all: wire monitor"]))
    fam = fam_openers() + fam_after_cr() + fam_after_cr([V4]) + [[CR, EOD], [CR, V4, EOD], [CR, V6, EOD], [CR, KEY, EOD], [CR, V4, V4, EOD]]
    if tier == "thorough":
        fam += fam_complete(tier)[6:]
    for sk in fam:
        J.append(sync_job("ASSERT_C14", sk, extra=["NO_TABLE_FAIL"] if len(sk) >= 6 else None, timeout=2400 if len(sk) >= 6 else 900))
    return J
