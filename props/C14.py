"""C14 -- every PDU sent is well-formed; error reports echo the offending PDU exactly."""
from engine import core
from .common import recv_job, PKT_SOURCES
from .fsm_common import fsm_job
from .sync_common import *

INFO = {
    "outside": 'reports about PDUs longer than the fixed-size types (the client only echoes fixed-size PDUs or headers)',
    "assumptions": ['as C03'],
}
MANIFEST = {
    "text": "A wire monitor replaces the transport send: every byte sequence handed to it must be one well-formed PDU of the negotiated version with length field = bytes sent <= the client's maximum. The real Error Report senders are decided for every encapsulable PDU type with all bits symbolic (echo must equal the network-order bytes 'as received', computed by an independent decoder); rtr_receive_pdu on an arbitrary stream and rtr_sync on skeletons decide which violation produces which report (code, echo, text made of printable characters -- unconstrained stack bytes cannot satisfy that) and that none is sent in reply to an Error Report. The real tr_send_all, which the monitor stands in for elsewhere, is decided to put exactly the PDU's bytes in order on a transport that splits the writes arbitrarily.",
    "note": 'Partial writes of the transport: tr_send_all unit (C04). In the rtr_sync unit the sender is a recording contract stub whose behaviour is proved on the real sender in the errpdu jobs.',
    "technique": 'CBMC wire monitor on real packets.c senders + receive path + rtr_sync skeletons',
}


def jobs(tier):
    L = 48 if tier == "quick" else 96
    J = [recv_job(core, "recv_reports_L%d" % L, "ASSERT_C14", L, False)]
    for kind, nm, text in ((4, "ipv4", 0), (6, "ipv6", 9), (9, "router_key", 1), (70, "eod_v0", 2), (71, "eod_v1", 0),
                           (8, "header_only", 0), (8, "header_only_notext", 9), (0, "no_pdu", 0), (0, "no_pdu_notext", 3)):
        J.append(core.Job(name="errpdu_" + nm, harness="rtr_errpdu_unit.c", entry="harness", defines=["KIND=%d" % kind, "TEXT=%d" % text],
                          unwind=230, timeout=600, sources=PKT_SOURCES, object_bits=10,
                          desc="real rtr_send_error_pdu_from_host/rtr_send_error_pdu/rtr_send_pdu + byte-order conversion for an "
                               "offending %s PDU with all 8*len bits symbolic, any error code, fixed text" % nm,
                          bounds={"offending_pdu": nm, "fields": "all bits symbolic"},
                          stubs=["tr_send_all: wire monitor (full copy of the report)", "lrtr_dbg: empty"]))
    J.append(core.Job(name="errpdu_refusals", harness="rtr_errpdu_unit.c", entry="harness_refusals", unwind=230, timeout=600,
                      sources=PKT_SOURCES, object_bits=10, desc="no report about an Error Report",
                      bounds={}, stubs=["tr_send_all: wire monitor"]))
    # the wire monitor stands in for tr_send_all in every job above, so "the bytes handed to the transport are one
    # well-formed PDU" reaches the wire only if the real tr_send_all delivers exactly those bytes, in order, however
    # the transport splits the writes (seed S-C14-3: second short write of one PDU re-sends its head)
    J.append(core.Job(name="transport_send_all", harness="transport_all.c", entry="harness_send", defines=["TLEN=%d" % (12 if tier == "quick" else 14)],
                      unwind=26, timeout=900, memory_checks=True, object_bits=9, flags_meta=["unwind-is-violation"],
                      desc="real tr_send_all over a transport accepting arbitrary chunk sizes 1..remaining with faults at any call: "
                           "the bytes that reach the transport are exactly the PDU's bytes in order",
                      bounds={"length": "0..%d bytes" % (12 if tier == "quick" else 14)},
                      stubs=["send callback: arbitrary chunking and faults", "clock: arbitrary"]))
    fam = fam_openers() + fam_after_cr() + fam_after_cr([V4]) + [[CR, EOD], [CR, V4, EOD], [CR, V6, EOD], [CR, KEY, EOD], [CR, V4, V4, EOD]]
    if tier == "thorough":
        fam += fam_complete(tier)[6:]
    for sk in fam:
        J.append(sync_job("ASSERT_C14", sk, extra=["NO_TABLE_FAIL"] if len(sk) >= 6 else None, timeout=2400 if len(sk) >= 6 else 900))
    return J
