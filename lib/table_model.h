/*
 * TABLE MODEL: array-of-records implementation of the pfx_table_* / spki_table_* primitives used
 * ONLY as environment of the protocol-level harnesses (rtr_sync unit, FSM).  Its adequacy --
 * "the tables behave as exact sets with these return codes and callbacks" -- is exactly the
 * statement of C02 / C09 / C10, which are decided on the real containers.
 *
 * Two tables of each kind are distinguished by address: the socket's live table and any other
 * (the shadow table of an atomic reload).
 */
#ifndef TABLE_MODEL_H
#define TABLE_MODEL_H

#include "verif.h"

#include "rtrlib/pfx/pfx_private.h"
#include "rtrlib/spki/hashtable/ht-spkitable_private.h"

#ifndef TM_CAP
#define TM_CAP 6
#endif

/* slim records: no unions, no 111-byte key arrays (the harness only varies byte 0 of SKI/SPKI),
 * two separate objects per table kind instead of a symbolically indexed array
 */
struct tm_prec {
	uint32_t asn;
	uint8_t ver;
	uint32_t a[4];
	uint8_t min_len, max_len;
	const struct rtr_socket *socket;
};
struct tm_krec {
	uint32_t asn;
	uint8_t ski0, spki0;
	const struct rtr_socket *socket;
};
struct tm_pfx_tab {
	bool used[TM_CAP];
	struct tm_prec rec[TM_CAP];
};
struct tm_spki_tab {
	bool used[TM_CAP];
	struct tm_krec rec[TM_CAP];
};

static struct tm_pfx_tab tm_pfx0, tm_pfx1;   /* live, shadow */
static struct tm_spki_tab tm_spki0, tm_spki1;
#define TM_PFX(id) ((id) == 0 ? &tm_pfx0 : &tm_pfx1)
#define TM_SPKI(id) ((id) == 0 ? &tm_spki0 : &tm_spki1)
static struct pfx_table *tm_live_pfx;
static struct spki_table *tm_live_spki;
static bool tm_fail_enabled;        /* table operations may report an internal error (allocation failure) */
static unsigned int tm_live_pfx_writes, tm_live_spki_writes; /* mutations of the LIVE tables */
static bool tm_swap_seen_pfx, tm_swap_seen_spki;

static int tm_pid(const struct pfx_table *t)
{
	return t == tm_live_pfx ? 0 : 1;
}

static int tm_sid(const struct spki_table *t)
{
	return t == tm_live_spki ? 0 : 1;
}

static struct tm_prec tm_p(const struct pfx_record *r)
{
	struct tm_prec m;

	m.asn = r->asn;
	m.ver = (uint8_t)r->prefix.ver;
	if (r->prefix.ver == LRTR_IPV4) {
		m.a[0] = r->prefix.u.addr4.addr;
		m.a[1] = m.a[2] = m.a[3] = 0;
	} else {
		m.a[0] = r->prefix.u.addr6.addr[0];
		m.a[1] = r->prefix.u.addr6.addr[1];
		m.a[2] = r->prefix.u.addr6.addr[2];
		m.a[3] = r->prefix.u.addr6.addr[3];
	}
	m.min_len = r->min_len;
	m.max_len = r->max_len;
	m.socket = r->socket;
	return m;
}

static struct pfx_record tm_unp(const struct tm_prec *m)
{
	struct pfx_record r;

	r.asn = m->asn;
	r.prefix.ver = (enum lrtr_ip_version)m->ver;
	if (m->ver == LRTR_IPV4) {
		r.prefix.u.addr4.addr = m->a[0];
	} else {
		r.prefix.u.addr6.addr[0] = m->a[0];
		r.prefix.u.addr6.addr[1] = m->a[1];
		r.prefix.u.addr6.addr[2] = m->a[2];
		r.prefix.u.addr6.addr[3] = m->a[3];
	}
	r.min_len = m->min_len;
	r.max_len = m->max_len;
	r.socket = m->socket;
	return r;
}

static struct tm_krec tm_k(const struct spki_record *r)
{
	struct tm_krec m;

	m.asn = r->asn;
	m.ski0 = r->ski[0];
	m.spki0 = r->spki[0];
	m.socket = r->socket;
	return m;
}

static struct spki_record tm_unk(const struct tm_krec *m)
{
	struct spki_record r;

	for (unsigned int i = 0; i < SKI_SIZE; i++)
		r.ski[i] = 0;
	for (unsigned int i = 0; i < SPKI_SIZE; i++)
		r.spki[i] = 0;
	r.ski[0] = m->ski0;
	r.spki[0] = m->spki0;
	r.asn = m->asn;
	r.socket = m->socket;
	return r;
}

static bool tm_prec_eq(const struct tm_prec *a, const struct tm_prec *b)
{
	return a->asn == b->asn && a->ver == b->ver && a->a[0] == b->a[0] && a->a[1] == b->a[1] && a->a[2] == b->a[2] &&
	       a->a[3] == b->a[3] && a->min_len == b->min_len && a->max_len == b->max_len && a->socket == b->socket;
}

static bool tm_krec_eq(const struct tm_krec *a, const struct tm_krec *b)
{
	return a->asn == b->asn && a->ski0 == b->ski0 && a->spki0 == b->spki0 && a->socket == b->socket;
}

static bool tm_pfx_eq(const struct pfx_record *a, const struct pfx_record *b)
{
	struct tm_prec x = tm_p(a), y = tm_p(b);

	return tm_prec_eq(&x, &y);
}

/* the harness only generates keys whose SKI/SPKI differ in byte 0 (other bytes zero) */
static bool tm_spki_eq(const struct spki_record *a, const struct spki_record *b)
{
	return a->asn == b->asn && a->socket == b->socket && a->ski[0] == b->ski[0] && a->spki[0] == b->spki[0];
}

static unsigned int tm_pcount(int id, const struct tm_prec *q)
{
	unsigned int c = 0;
	const struct tm_pfx_tab *t = TM_PFX(id);

	for (unsigned int i = 0; i < TM_CAP; i++)
		if (t->used[i] && tm_prec_eq(&t->rec[i], q))
			c++;
	return c;
}

static unsigned int tm_pfx_count(int id, const struct pfx_record *q)
{
	struct tm_prec m = tm_p(q);

	return tm_pcount(id, &m);
}

static unsigned int tm_kcount(int id, const struct tm_krec *q)
{
	unsigned int c = 0;
	const struct tm_spki_tab *t = TM_SPKI(id);

	for (unsigned int i = 0; i < TM_CAP; i++)
		if (t->used[i] && tm_krec_eq(&t->rec[i], q))
			c++;
	return c;
}

static unsigned int tm_spki_count(int id, const struct spki_record *q)
{
	struct tm_krec m = tm_k(q);

	return tm_kcount(id, &m);
}

static unsigned int tm_pfx_count_sock(int id, const struct rtr_socket *s)
{
	unsigned int c = 0;
	const struct tm_pfx_tab *t = TM_PFX(id);

	for (unsigned int i = 0; i < TM_CAP; i++)
		if (t->used[i] && t->rec[i].socket == s)
			c++;
	return c;
}

static unsigned int tm_spki_count_sock(int id, const struct rtr_socket *s)
{
	unsigned int c = 0;
	const struct tm_spki_tab *t = TM_SPKI(id);

	for (unsigned int i = 0; i < TM_CAP; i++)
		if (t->used[i] && t->rec[i].socket == s)
			c++;
	return c;
}

static bool tm_nd_fail(void)
{
	return tm_fail_enabled && ND_BOOL("table.fail");
}

/* ---------------- prefix table ---------------- */
void pfx_table_init(struct pfx_table *t, pfx_update_fp fp)
{
	t->ipv4 = NULL;
	t->ipv6 = NULL;
	t->update_fp = fp;
	if (tm_pid(t) == 1)
		for (unsigned int i = 0; i < TM_CAP; i++)
			tm_pfx1.used[i] = false;
}

static void tm_check_lengths(const struct pfx_record *r)
{
#ifdef ASSERT_C04
	unsigned int width = r->prefix.ver == LRTR_IPV4 ? 32 : 128;

	VASSERT(r->min_len <= width && r->max_len <= width,
		"C04: a prefix record with a length beyond the address width never reaches the prefix table");
#else
	(void)r;
#endif
}

int pfx_table_add(struct pfx_table *t, const struct pfx_record *r)
{
	int id = tm_pid(t);

	tm_check_lengths(r);
	struct tm_pfx_tab *tab = TM_PFX(id);
	struct tm_prec m = tm_p(r);

	if (tm_pcount(id, &m))
		return PFX_DUPLICATE_RECORD;
	if (tm_nd_fail())
		return PFX_ERROR;
	for (unsigned int i = 0; i < TM_CAP; i++) {
		if (!tab->used[i]) {
			tab->used[i] = true;
			tab->rec[i] = m;
			if (id == 0)
				tm_live_pfx_writes++;
			if (t->update_fp)
				t->update_fp(t, *r, true);
			return PFX_SUCCESS;
		}
	}
	VASSERT(0, "table model: capacity exceeded (raise TM_CAP)");
	VASSUME(0);
	return PFX_ERROR;
}

int pfx_table_remove(struct pfx_table *t, const struct pfx_record *r)
{
	int id = tm_pid(t);

	tm_check_lengths(r);
	struct tm_pfx_tab *tab = TM_PFX(id);
	struct tm_prec m = tm_p(r);

	for (unsigned int i = 0; i < TM_CAP; i++) {
		if (tab->used[i] && tm_prec_eq(&tab->rec[i], &m)) {
			if (tm_nd_fail())
				return PFX_ERROR;
			tab->used[i] = false;
			if (id == 0)
				tm_live_pfx_writes++;
			if (t->update_fp)
				t->update_fp(t, *r, false);
			return PFX_SUCCESS;
		}
	}
	return PFX_RECORD_NOT_FOUND;
}

int pfx_table_src_remove(struct pfx_table *t, const struct rtr_socket *s)
{
	int id = tm_pid(t);
	struct tm_pfx_tab *tab = TM_PFX(id);

	for (unsigned int i = 0; i < TM_CAP; i++) {
		if (tab->used[i] && tab->rec[i].socket == s) {
			tab->used[i] = false;
			if (id == 0)
				tm_live_pfx_writes++;
			if (t->update_fp)
				t->update_fp(t, tm_unp(&tab->rec[i]), false);
		}
	}
	return PFX_SUCCESS;
}

void pfx_table_free_without_notify(struct pfx_table *t)
{
	VASSERT(tm_pid(t) == 1, "table model: only a shadow table is freed during a synchronisation");
	t->update_fp = NULL;
	for (unsigned int i = 0; i < TM_CAP; i++)
		tm_pfx1.used[i] = false;
}

int pfx_table_copy_except_socket(struct pfx_table *src, struct pfx_table *dst, const struct rtr_socket *s)
{
	VASSERT(tm_pid(src) == 0 && tm_pid(dst) == 1, "table model: shadow is copied from the live table");
	if (tm_nd_fail())
		return PFX_ERROR;
	for (unsigned int i = 0; i < TM_CAP; i++) {
		tm_pfx1.used[i] = tm_pfx0.used[i] && tm_pfx0.rec[i].socket != s;
		tm_pfx1.rec[i] = tm_pfx0.rec[i];
	}
	return PFX_SUCCESS;
}

void pfx_table_swap(struct pfx_table *a, struct pfx_table *b)
{
	VASSERT(tm_pid(a) != tm_pid(b), "table model: swap of live and shadow table");
	struct tm_pfx_tab tmp = tm_pfx0;

	tm_pfx0 = tm_pfx1;
	tm_pfx1 = tmp;
	tm_live_pfx_writes++;
	tm_swap_seen_pfx = true;
}

void pfx_table_notify_diff(struct pfx_table *new_table, struct pfx_table *old_table, const struct rtr_socket *s)
{
	VASSERT(tm_pid(new_table) == 0 && tm_pid(old_table) == 1, "table model: diff of live (new) against shadow (old)");
	for (unsigned int i = 0; i < TM_CAP; i++) {
		if (tm_pfx0.used[i] && tm_pfx0.rec[i].socket == s) {
			bool in_old = false;

			for (unsigned int j = 0; j < TM_CAP; j++) {
				if (tm_pfx1.used[j] && tm_prec_eq(&tm_pfx1.rec[j], &tm_pfx0.rec[i])) {
					tm_pfx1.used[j] = false;
					in_old = true;
				}
			}
			if (!in_old && new_table->update_fp)
				new_table->update_fp(new_table, tm_unp(&tm_pfx0.rec[i]), true);
		}
	}
	for (unsigned int j = 0; j < TM_CAP; j++)
		if (tm_pfx1.used[j] && tm_pfx1.rec[j].socket == s && new_table->update_fp)
			new_table->update_fp(new_table, tm_unp(&tm_pfx1.rec[j]), false);
}

/* ---------------- router-key table ---------------- */
int spki_table_init(struct spki_table *t, spki_update_fp fp)
{
	t->update_fp = fp;
	if (tm_sid(t) == 1)
		for (unsigned int i = 0; i < TM_CAP; i++)
			tm_spki1.used[i] = false;
	/* the real function reports a failed bucket-array allocation (the table may then only be freed) */
	if (tm_nd_fail())
		return SPKI_ERROR;
	return SPKI_SUCCESS;
}

int spki_table_add_entry(struct spki_table *t, struct spki_record *r)
{
	int id = tm_sid(t);
	struct tm_spki_tab *tab = TM_SPKI(id);
	struct tm_krec m = tm_k(r);

	if (tm_nd_fail())
		return SPKI_ERROR;
	if (tm_kcount(id, &m))
		return SPKI_DUPLICATE_RECORD;
	for (unsigned int i = 0; i < TM_CAP; i++) {
		if (!tab->used[i]) {
			tab->used[i] = true;
			tab->rec[i] = m;
			if (id == 0)
				tm_live_spki_writes++;
			if (t->update_fp)
				t->update_fp(t, *r, true);
			return SPKI_SUCCESS;
		}
	}
	VASSERT(0, "table model: capacity exceeded (raise TM_CAP)");
	VASSUME(0);
	return SPKI_ERROR;
}

int spki_table_remove_entry(struct spki_table *t, struct spki_record *r)
{
	int id = tm_sid(t);
	struct tm_spki_tab *tab = TM_SPKI(id);
	struct tm_krec m = tm_k(r);

	for (unsigned int i = 0; i < TM_CAP; i++) {
		if (tab->used[i] && tm_krec_eq(&tab->rec[i], &m)) {
			tab->used[i] = false;
			if (id == 0)
				tm_live_spki_writes++;
			if (t->update_fp)
				t->update_fp(t, *r, false);
			return SPKI_SUCCESS;
		}
	}
	return SPKI_RECORD_NOT_FOUND;
}

int spki_table_src_remove(struct spki_table *t, const struct rtr_socket *s)
{
	int id = tm_sid(t);
	struct tm_spki_tab *tab = TM_SPKI(id);

	for (unsigned int i = 0; i < TM_CAP; i++) {
		if (tab->used[i] && tab->rec[i].socket == s) {
			tab->used[i] = false;
			if (id == 0)
				tm_live_spki_writes++;
			if (t->update_fp)
				t->update_fp(t, tm_unk(&tab->rec[i]), false);
		}
	}
	return SPKI_SUCCESS;
}

void spki_table_free_without_notify(struct spki_table *t)
{
	VASSERT(tm_sid(t) == 1, "table model: only a shadow table is freed during a synchronisation");
	t->update_fp = NULL;
	for (unsigned int i = 0; i < TM_CAP; i++)
		tm_spki1.used[i] = false;
}

int spki_table_copy_except_socket(struct spki_table *src, struct spki_table *dst, struct rtr_socket *s)
{
	VASSERT(tm_sid(src) == 0 && tm_sid(dst) == 1, "table model: shadow is copied from the live table");
	if (tm_nd_fail())
		return SPKI_ERROR;
	for (unsigned int i = 0; i < TM_CAP; i++) {
		tm_spki1.used[i] = tm_spki0.used[i] && tm_spki0.rec[i].socket != s;
		tm_spki1.rec[i] = tm_spki0.rec[i];
	}
	return SPKI_SUCCESS;
}

void spki_table_swap(struct spki_table *a, struct spki_table *b)
{
	VASSERT(tm_sid(a) != tm_sid(b), "table model: swap of live and shadow table");
	struct tm_spki_tab tmp = tm_spki0;

	tm_spki0 = tm_spki1;
	tm_spki1 = tmp;
	tm_live_spki_writes++;
	tm_swap_seen_spki = true;
}

void spki_table_notify_diff(struct spki_table *new_table, struct spki_table *old_table, const struct rtr_socket *s)
{
	VASSERT(tm_sid(new_table) == 0 && tm_sid(old_table) == 1, "table model: diff of live (new) against shadow (old)");
	for (unsigned int i = 0; i < TM_CAP; i++) {
		if (tm_spki0.used[i] && tm_spki0.rec[i].socket == s) {
			bool in_old = false;

			for (unsigned int j = 0; j < TM_CAP; j++) {
				if (tm_spki1.used[j] && tm_krec_eq(&tm_spki1.rec[j], &tm_spki0.rec[i])) {
					tm_spki1.used[j] = false;
					in_old = true;
				}
			}
			if (!in_old && new_table->update_fp)
				new_table->update_fp(new_table, tm_unk(&tm_spki0.rec[i]), true);
		}
	}
	for (unsigned int j = 0; j < TM_CAP; j++)
		if (tm_spki1.used[j] && tm_spki1.rec[j].socket == s && new_table->update_fp)
			new_table->update_fp(new_table, tm_unk(&tm_spki1.rec[j]), false);
}

#endif
