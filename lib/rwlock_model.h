/*
 * Own model of pthread_rwlock_* (CBMC's built-in model is wrong: unlock after wrlock asserts).
 * Sequential semantics with ghost state per lock: readers count / writer flag.
 * Lock-discipline obligations (part of C16): never unlock a lock that is not held, never
 * acquire a lock this (only) thread already holds in a conflicting mode (self-deadlock).
 *
 * Optional HAVOC hook (C16 reduction): if VL_HAVOC is defined the harness supplies
 *   void vl_on_acquire(pthread_rwlock_t *l, int write);
 *   void vl_on_release(pthread_rwlock_t *l, int was_write);
 * which it uses to scramble the protected fields while no lock is held and to restore
 * them at acquisition.
 */
#ifndef RWLOCK_MODEL_H
#define RWLOCK_MODEL_H

#include "verif.h"

#include <pthread.h>

#ifndef VERIF_NATIVE

#define VL_MAX 4
static pthread_rwlock_t *vl_addr[VL_MAX];
static int vl_readers[VL_MAX];
static int vl_writer[VL_MAX];
static unsigned int vl_rd_sections[VL_MAX]; /* number of read sections opened so far */
static unsigned int vl_wr_sections[VL_MAX];
static int vl_destroyed[VL_MAX];

#ifdef VL_HAVOC
void vl_on_acquire(pthread_rwlock_t *l, int write);
void vl_on_release(pthread_rwlock_t *l, int was_write);
#endif

static int vl_slot(pthread_rwlock_t *l)
{
	for (int i = 0; i < VL_MAX; i++)
		if (vl_addr[i] == l)
			return i;
	for (int i = 0; i < VL_MAX; i++)
		if (!vl_addr[i]) {
			vl_addr[i] = l;
			return i;
		}
	VASSERT(0, "rwlock model: too many locks");
	VASSUME(0);
	return 0;
}

static int vl_held(pthread_rwlock_t *l)
{
	int i = vl_slot(l);

	return vl_writer[i] ? 2 : (vl_readers[i] ? 1 : 0);
}

int pthread_rwlock_init(pthread_rwlock_t *l, const pthread_rwlockattr_t *a)
{
	int i = vl_slot(l);

	(void)a;
	vl_readers[i] = 0;
	vl_writer[i] = 0;
	vl_destroyed[i] = 0;
	return 0;
}

int pthread_rwlock_destroy(pthread_rwlock_t *l)
{
	int i = vl_slot(l);

	VASSERT(!vl_writer[i] && !vl_readers[i], "rwlock: destroyed while held");
	vl_destroyed[i] = 1;
	return 0;
}

int pthread_rwlock_rdlock(pthread_rwlock_t *l)
{
	int i = vl_slot(l);

	VASSERT(!vl_writer[i], "rwlock: rdlock while this thread holds the write lock (self-deadlock)");
	vl_readers[i]++;
	vl_rd_sections[i]++;
#ifdef VL_HAVOC
	if (vl_readers[i] == 1)
		vl_on_acquire(l, 0);
#endif
	return 0;
}

int pthread_rwlock_wrlock(pthread_rwlock_t *l)
{
	int i = vl_slot(l);

	VASSERT(!vl_writer[i] && !vl_readers[i], "rwlock: wrlock while this thread already holds the lock (self-deadlock)");
	vl_writer[i] = 1;
	vl_wr_sections[i]++;
#ifdef VL_HAVOC
	vl_on_acquire(l, 1);
#endif
	return 0;
}

int pthread_rwlock_unlock(pthread_rwlock_t *l)
{
	int i = vl_slot(l);

	VASSERT(vl_writer[i] || vl_readers[i] > 0, "rwlock: unlock of a lock that is not held");
	if (vl_writer[i]) {
		vl_writer[i] = 0;
#ifdef VL_HAVOC
		vl_on_release(l, 1);
#endif
	} else if (vl_readers[i] > 0) {
		vl_readers[i]--;
#ifdef VL_HAVOC
		if (vl_readers[i] == 0)
			vl_on_release(l, 0);
#endif
	}
	return 0;
}

#else
static inline int vl_held(pthread_rwlock_t *l)
{
	(void)l;
	return 0;
}
#endif

#endif
