/* native replay entry: calls the harness function named by -DVERIF_ENTRY_FN */
#include <stdio.h>
void VERIF_ENTRY_FN(void);
int main(void)
{
	VERIF_ENTRY_FN();
	fprintf(stderr, "REPLAY-COMPLETED: no assertion violated natively\n");
	return 0;
}
