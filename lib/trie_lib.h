/*
 * Harness library for the prefix table (C01, C02, C09, C16, C18).
 * Includes the REAL trie-pfx.c (so its static functions and private structs are visible);
 * trie.c, ip.c, ipv4.c, ipv6.c, utils.c, alloc_utils.c are linked from /repo as they are.
 *
 * Provides, independently of rtrlib's own search code (everything here is a full traversal):
 *   tl_inv()      representation invariant Inv of a trie
 *   tl_count()    number of occurrences of a record in a table (both families)
 *   tl_total()    number of records in a table
 *   tl_template() an arbitrary trie inside template(TD,TE): complete binary tree of depth TD whose
 *                 slots are optionally present, every field symbolic
 *   RFC 6811 oracle: tl_covers(), tl_oracle()
 */
#ifndef TRIE_LIB_H
#define TRIE_LIB_H

#ifndef TD
#define TD 1
#endif
#ifndef TE
#define TE 2
#endif
#ifndef FAM
#define FAM 4
#endif
#ifndef NSOCK
#define NSOCK 2
#endif

#define TL_NSLOTS ((1 << (TD + 1)) - 1)

#include "verif.h"

#include "rtrlib/pfx/trie/trie-pfx.c"
#include "rtrlib/rtr/rtr.h"

/* typed size classes (see alloc_model.h): nodes and node_data come through lrtr_malloc,
 * data_elem arrays and validate_r's reason arrays through lrtr_realloc
 */
#define VM_MALLOC_CLASSES X(struct trie_node, 1) X(struct node_data, 1)
#ifdef TL_WITH_REASONS
#define VM_REALLOC_CLASSES                                                                                        \
	X(struct data_elem, 1) X(struct data_elem, 2) X(struct data_elem, 3) X(struct data_elem, 4)              \
	X(struct pfx_record, 1) X(struct pfx_record, 2) X(struct pfx_record, 3) X(struct pfx_record, 4)         \
	X(struct pfx_record, 5) X(struct pfx_record, 6) X(struct pfx_record, 7) X(struct pfx_record, 8)         \
	X(struct pfx_record, 9)
#else
#define VM_REALLOC_CLASSES X(struct data_elem, 1) X(struct data_elem, 2) X(struct data_elem, 3) X(struct data_elem, 4)
#endif
#ifndef VM_EXACT
#define VM_CAP_MODE
#ifdef TL_WITH_REASONS
#define VM_REALLOC_TYPE struct pfx_record
#define VM_REALLOC_CAP ((TD + 2) * (TE + 1))
#else
#define VM_REALLOC_TYPE struct data_elem
#define VM_REALLOC_CAP (TE + 2)
#endif
#endif
#include "alloc_model.h"
#include "rwlock_model.h"

static struct rtr_socket tl_sock[3];

/* ---- C16: "havoc outside the lock" reduction ------------------------------------------------
 * With -DVL_HAVOC the protected fields of the table under test (the two trie roots) hold ARBITRARY
 * values whenever its rwlock is not held and their true values only inside a critical section.
 * Code that touches table state outside a critical section therefore reads garbage (or has its
 * write overwritten) and fails the functional oracle; the counters give "one read section per read".
 */
static struct pfx_table *hv_table;
static struct trie_node *hv_true4, *hv_true6;
static bool hv_scrambled;
static unsigned int hv_unlocked_root_changes; /* roots changed inside a READ section */
struct trie_node *nondet_trie_node_ptr(void);

/* what an unlocked reader may see instead of the true root: nothing, or a well-formed one-node trie with
 * arbitrary content (kept well-formed so that a mutant that follows it stays cheap to execute and is
 * refuted by the functional oracle rather than by an explosion of wild dereferences)
 */
static struct trie_node hv_poison4, hv_poison6;
static struct node_data hv_poison_data;
static struct data_elem hv_poison_elem;

static void hv_scramble(void)
{
#ifdef VL_HAVOC
	if (!hv_table || hv_scrambled)
		return;
	hv_true4 = hv_table->ipv4;
	hv_true6 = hv_table->ipv6;
	hv_poison_elem.asn = ND(uint32_t, "havoc.asn");
	hv_poison_elem.max_len = ND(uint8_t, "havoc.maxlen");
	hv_poison_elem.socket = &tl_sock[0];
	hv_poison_data.len = 1;
	hv_poison_data.ary = &hv_poison_elem;
	hv_poison4.prefix.ver = LRTR_IPV4;
	hv_poison4.prefix.u.addr4.addr = 0;
	hv_poison4.len = 0;
	hv_poison4.lchild = hv_poison4.rchild = hv_poison4.parent = NULL;
	hv_poison4.data = &hv_poison_data;
	hv_poison6 = hv_poison4;
	hv_poison6.prefix.ver = LRTR_IPV6;
	hv_poison6.prefix.u.addr6.addr[0] = hv_poison6.prefix.u.addr6.addr[1] = 0;
	hv_poison6.prefix.u.addr6.addr[2] = hv_poison6.prefix.u.addr6.addr[3] = 0;
	hv_table->ipv4 = ND_BOOL("havoc.null4") ? NULL : &hv_poison4;
	hv_table->ipv6 = ND_BOOL("havoc.null6") ? NULL : &hv_poison6;
	hv_scrambled = true;
#endif
}

static void hv_restore(void)
{
#ifdef VL_HAVOC
	if (!hv_table || !hv_scrambled)
		return;
	hv_table->ipv4 = hv_true4;
	hv_table->ipv6 = hv_true6;
	hv_scrambled = false;
#endif
}

#ifdef VL_HAVOC
void vl_on_acquire(pthread_rwlock_t *l, int write)
{
	(void)write;
	if (hv_table && l == &hv_table->lock)
		hv_restore();
}

void vl_on_release(pthread_rwlock_t *l, int was_write)
{
	if (hv_table && l == &hv_table->lock) {
		if (!was_write && (hv_table->ipv4 != hv_true4 || hv_table->ipv6 != hv_true6))
			hv_unlocked_root_changes++;
		hv_scramble();
	}
}
#endif


static const struct rtr_socket *tl_nd_socket(const char *name)
{
	(void)name;
	uint8_t s = ND(uint8_t, "sock");

	VASSUME(s < NSOCK);
	return &tl_sock[s];
}

/* ---- independent bit helpers (oracle side; do not use rtrlib's get_bits) ---- */
static inline unsigned int tl_width(enum lrtr_ip_version v)
{
	return v == LRTR_IPV4 ? 32 : 128;
}

static inline uint32_t tl_word(const struct lrtr_ip_addr *a, unsigned int i)
{
	if (a->ver == LRTR_IPV4)
		return i == 0 ? a->u.addr4.addr : 0;
	return a->u.addr6.addr[i];
}

static inline uint32_t tl_mask32(unsigned int n) /* n in 0..32 leading ones */
{
	return n == 0 ? 0u : (n >= 32 ? 0xffffffffu : ~(0xffffffffu >> n));
}

/* first n bits of a and b equal (same family assumed) */
static bool tl_prefix_eq(const struct lrtr_ip_addr *a, const struct lrtr_ip_addr *b, unsigned int n)
{
	unsigned int words = a->ver == LRTR_IPV4 ? 1 : 4;

	for (unsigned int i = 0; i < 4; i++) {
		if (i >= words)
			break;
		unsigned int lo = 32 * i;
		unsigned int k = n <= lo ? 0 : (n - lo >= 32 ? 32 : n - lo);
		uint32_t m = tl_mask32(k);

		if ((tl_word(a, i) & m) != (tl_word(b, i) & m))
			return false;
	}
	return true;
}

static bool tl_addr_eq(const struct lrtr_ip_addr *a, const struct lrtr_ip_addr *b)
{
	if (a->ver != b->ver)
		return false;
	return tl_prefix_eq(a, b, tl_width(a->ver));
}

static bool tl_bit(const struct lrtr_ip_addr *a, unsigned int i)
{
	return (tl_word(a, i / 32) >> (31 - (i % 32))) & 1u;
}

static bool tl_hostbits_zero(const struct lrtr_ip_addr *a, unsigned int len)
{
	unsigned int words = a->ver == LRTR_IPV4 ? 1 : 4;

	for (unsigned int i = 0; i < 4; i++) {
		if (i >= words)
			break;
		unsigned int lo = 32 * i;
		unsigned int k = len <= lo ? 0 : (len - lo >= 32 ? 32 : len - lo);

		if (tl_word(a, i) & ~tl_mask32(k))
			return false;
	}
	return true;
}

static bool tl_rec_eq(const struct pfx_record *a, const struct pfx_record *b)
{
	return a->asn == b->asn && a->min_len == b->min_len && a->max_len == b->max_len && a->socket == b->socket &&
	       tl_addr_eq(&a->prefix, &b->prefix);
}

/* an arbitrary record of family ver: host bits zero, len <= width (the property's domain) */
static struct pfx_record tl_nd_record(enum lrtr_ip_version ver)
{
	struct pfx_record r;

	r.asn = ND(uint32_t, "rec.asn");
	r.prefix.ver = ver;
	if (ver == LRTR_IPV4) {
		r.prefix.u.addr4.addr = ND(uint32_t, "rec.addr0");
	} else {
		r.prefix.u.addr6.addr[0] = ND(uint32_t, "rec.addr0");
		r.prefix.u.addr6.addr[1] = ND(uint32_t, "rec.addr1");
		r.prefix.u.addr6.addr[2] = ND(uint32_t, "rec.addr2");
		r.prefix.u.addr6.addr[3] = ND(uint32_t, "rec.addr3");
	}
	r.min_len = ND(uint8_t, "rec.len");
	r.max_len = ND(uint8_t, "rec.maxlen");
	r.socket = tl_nd_socket("rec.sock");
	VASSUME(r.min_len <= tl_width(ver));
	VASSUME(tl_hostbits_zero(&r.prefix, r.min_len));
	return r;
}

/* ---- flat snapshot of a trie (the oracles never use rtrlib's search code) ----
 * Position i of a complete binary tree (children 2i+1 left, 2i+2 right), TL_LEVELS levels.
 * One pointer walk copies every reachable node into scalars; all oracles then work on
 * constant indices.  A tree deeper than TL_LEVELS or with more than TL_MAXE records on a
 * node sets .overflow (asserted false by the harnesses: sound, never silently truncated).
 */
#ifndef TL_LEVELS
#define TL_LEVELS (TD + 2)
#endif
#define TL_NPOS ((1 << TL_LEVELS) - 1)
#define TL_MAXE (TE + 1)

struct tl_felem {
	uint32_t asn;
	uint8_t max_len;
	const struct rtr_socket *socket;
};

struct tl_fnode {
	const struct trie_node *ptr;
	uint32_t a[4];
	uint8_t len;
	enum lrtr_ip_version ver;
	unsigned int nrec;
	bool data_ok;
	bool parent_ok;
	struct tl_felem e[TL_MAXE];
};

struct tl_flat {
	struct tl_fnode n[TL_NPOS];
	bool overflow;
};

static void tl_flatten(const struct trie_node *root, struct tl_flat *f)
{
	f->overflow = false;
	for (unsigned int i = 0; i < TL_NPOS; i++) {
		const struct trie_node *p;
		const struct trie_node *par = NULL;

		if (i == 0) {
			p = root;
		} else {
			par = f->n[(i - 1) / 2].ptr;
			p = par ? ((i % 2 == 1) ? par->lchild : par->rchild) : NULL;
		}
		f->n[i].ptr = p;
		f->n[i].nrec = 0;
		f->n[i].data_ok = true;
		f->n[i].parent_ok = true;
		if (!p)
			continue;
		f->n[i].parent_ok = (p->parent == par);
		f->n[i].ver = p->prefix.ver;
		f->n[i].len = p->len;
		if (p->prefix.ver == LRTR_IPV4) {
			f->n[i].a[0] = p->prefix.u.addr4.addr;
			f->n[i].a[1] = f->n[i].a[2] = f->n[i].a[3] = 0;
		} else {
			f->n[i].a[0] = p->prefix.u.addr6.addr[0];
			f->n[i].a[1] = p->prefix.u.addr6.addr[1];
			f->n[i].a[2] = p->prefix.u.addr6.addr[2];
			f->n[i].a[3] = p->prefix.u.addr6.addr[3];
		}
		const struct node_data *d = p->data;

		if (!d || (d->len > 0 && !d->ary)) {
			f->n[i].data_ok = false;
			continue;
		}
		f->n[i].nrec = d->len;
		if (d->len > TL_MAXE)
			f->overflow = true;
		for (unsigned int k = 0; k < TL_MAXE; k++) {
			if (k >= d->len)
				break;
			f->n[i].e[k].asn = d->ary[k].asn;
			f->n[i].e[k].max_len = d->ary[k].max_len;
			f->n[i].e[k].socket = d->ary[k].socket;
		}
		if (i >= TL_NPOS / 2 && (p->lchild || p->rchild))
			f->overflow = true; /* deeper than TL_LEVELS */
	}
}

static inline uint32_t tl_rword(const struct pfx_record *r, unsigned int i)
{
	return tl_word(&r->prefix, i);
}

static unsigned int tl_fcount(const struct tl_flat *f, const struct pfx_record *q)
{
	unsigned int c = 0;

	for (unsigned int i = 0; i < TL_NPOS; i++) {
		const struct tl_fnode *n = &f->n[i];

		if (!n->ptr || n->ver != q->prefix.ver || n->len != q->min_len)
			continue;
		if (n->a[0] != tl_rword(q, 0) || n->a[1] != tl_rword(q, 1) || n->a[2] != tl_rword(q, 2) ||
		    n->a[3] != tl_rword(q, 3))
			continue;
		for (unsigned int k = 0; k < TL_MAXE; k++) {
			if (k >= n->nrec)
				break;
			if (n->e[k].asn == q->asn && n->e[k].max_len == q->max_len && n->e[k].socket == q->socket)
				c++;
		}
	}
	return c;
}

static unsigned int tl_ftotal(const struct tl_flat *f)
{
	unsigned int c = 0;

	for (unsigned int i = 0; i < TL_NPOS; i++)
		if (f->n[i].ptr)
			c += f->n[i].nrec;
	return c;
}

static unsigned int tl_fnodes(const struct tl_flat *f)
{
	unsigned int c = 0;

	for (unsigned int i = 0; i < TL_NPOS; i++)
		if (f->n[i].ptr)
			c++;
	return c;
}

/* first n bits of two 4-word addresses equal */
static bool tl_words_prefix_eq(const uint32_t *a, const uint32_t *b, unsigned int n)
{
	for (unsigned int i = 0; i < 4; i++) {
		unsigned int lo = 32 * i;
		unsigned int k = n <= lo ? 0 : (n - lo >= 32 ? 32 : n - lo);
		uint32_t m = tl_mask32(k);

		if ((a[i] & m) != (b[i] & m))
			return false;
	}
	return true;
}

/* Inv on a flat snapshot: I1..I6 of DESIGN.md section 3; maxe = bound on records per node */
static bool tl_finv(const struct tl_flat *f, enum lrtr_ip_version ver, unsigned int maxe)
{
	if (f->overflow)
		return false;
	for (unsigned int i = 0; i < TL_NPOS; i++) {
		const struct tl_fnode *n = &f->n[i];

		if (!n->ptr)
			continue;
		if (!n->parent_ok || !n->data_ok) /* I6 */
			return false;
		if (n->ver != ver)
			return false;
		unsigned int width = ver == LRTR_IPV4 ? 32 : 128;

		if (n->len > width) /* I4 */
			return false;
		/* host bits zero */
		for (unsigned int w = 0; w < 4; w++) {
			unsigned int lo = 32 * w;
			unsigned int k = n->len <= lo ? 0 : (n->len - lo >= 32 ? 32 : n->len - lo);

			if (n->a[w] & ~tl_mask32(k))
				return false;
		}
		/* I1: first depth bits are the path to position i (bits of i+1 below its leading one) */
		unsigned int depth = 0;

		for (unsigned int j = i + 1; j > 1; j >>= 1)
			depth++;
		uint32_t pathbits = (i + 1) - (1u << depth); /* depth-bit number, MSB = first step */

		if (depth > 0 && (n->a[0] >> (32 - depth)) != pathbits)
			return false;
		/* I2, I3 against every ancestor */
		for (unsigned int j = i; j > 0;) {
			j = (j - 1) / 2;
			const struct tl_fnode *a = &f->n[j];

			if (j == (i - 1) / 2 && a->len > n->len) /* I2 */
				return false;
			if (a->len == n->len && a->a[0] == n->a[0] && a->a[1] == n->a[1] && a->a[2] == n->a[2] &&
			    a->a[3] == n->a[3]) /* I3 */
				return false;
		}
		/* I5 */
		if (n->nrec < 1 || n->nrec > maxe)
			return false;
		for (unsigned int x = 0; x < TL_MAXE; x++) {
			if (x >= n->nrec)
				break;
			for (unsigned int y = 0; y < x; y++)
				if (n->e[x].asn == n->e[y].asn && n->e[x].max_len == n->e[y].max_len &&
				    n->e[x].socket == n->e[y].socket)
					return false;
		}
	}
	return true;
}

/* snapshot of a whole table */
struct tl_snap {
	struct tl_flat v4, v6;
};

static void tl_snapshot(const struct pfx_table *t, struct tl_snap *s)
{
	tl_flatten(t->ipv4, &s->v4);
	tl_flatten(t->ipv6, &s->v6);
}

static unsigned int tl_scount(const struct tl_snap *s, const struct pfx_record *q)
{
	return q->prefix.ver == LRTR_IPV4 ? tl_fcount(&s->v4, q) : tl_fcount(&s->v6, q);
}

static unsigned int tl_stotal(const struct tl_snap *s)
{
	return tl_ftotal(&s->v4) + tl_ftotal(&s->v6);
}

static bool tl_sinv(const struct tl_snap *s, unsigned int maxe)
{
	return tl_finv(&s->v4, LRTR_IPV4, maxe) && tl_finv(&s->v6, LRTR_IPV6, maxe);
}

/* ---- symbolic pre-state ---- */
/* Optional CONCRETE SHAPE of the main template (-DTL_SHAPE=bitmask of present slots, bit i = slot i;
 * -DTL_NRECS=n0,n1,... records per slot): which nodes exist and how many records each holds is then
 * fixed per job while every prefix, length, AS, max-length and source stays symbolic.  The driver
 * enumerates all shapes of the template, so the union of the jobs covers the same state space as
 * the symbolic-shape template, at a fraction of the cost for the nested loops of remove-by-source.
 */
#ifdef TL_SHAPE
static const uint8_t tl_nrecs[] = {TL_NRECS};
static unsigned int tl_shape_mask = TL_SHAPE; /* a harness that builds two tables may switch the mask between them */
#endif
static int tl_cur_slot = -1; /* slot being built (main template only) */
static bool tl_shape_on;    /* set by the harness while it builds the main template */

static struct trie_node *tl_mk_node(enum lrtr_ip_version ver, unsigned int maxe)
{
	struct trie_node *n = vm_malloc(sizeof(struct trie_node));
	struct node_data *d = vm_malloc(sizeof(struct node_data));

	VASSUME(n && d);
	n->prefix.ver = ver;
	if (ver == LRTR_IPV4) {
		n->prefix.u.addr4.addr = ND(uint32_t, "node.addr0");
	} else {
		n->prefix.u.addr6.addr[0] = ND(uint32_t, "node.addr0");
		n->prefix.u.addr6.addr[1] = ND(uint32_t, "node.addr1");
		n->prefix.u.addr6.addr[2] = ND(uint32_t, "node.addr2");
		n->prefix.u.addr6.addr[3] = ND(uint32_t, "node.addr3");
	}
	n->len = ND(uint8_t, "node.len");
	n->lchild = n->rchild = n->parent = NULL;
	n->data = d;
	d->len = ND(uint8_t, "node.nrec");
#ifdef TL_SHAPE
	if (tl_cur_slot >= 0)
		d->len = tl_nrecs[tl_cur_slot];
#endif
	VASSUME(d->len >= 1 && d->len <= maxe && d->len <= 3);
	/* constant-size request per case keeps the pointer's value set at one object */
	if (d->len == 1)
		d->ary = vm_realloc(NULL, sizeof(struct data_elem) * 1);
	else if (d->len == 2)
		d->ary = vm_realloc(NULL, sizeof(struct data_elem) * 2);
	else
		d->ary = vm_realloc(NULL, sizeof(struct data_elem) * 3);
	VASSUME(d->ary);
	for (unsigned int i = 0; i < TE + 1; i++) {
		if (i >= d->len)
			break;
		d->ary[i].asn = ND(uint32_t, "elem.asn");
		d->ary[i].max_len = ND(uint8_t, "elem.maxlen");
		d->ary[i].socket = tl_nd_socket("elem.sock");
	}
	return n;
}

/* arbitrary trie within the template; slot i has children 2i+1 (left), 2i+2 (right) */
static struct trie_node *tl_template(enum lrtr_ip_version ver, unsigned int depth, unsigned int maxe)
{
	struct trie_node *slot[TL_NSLOTS];
	unsigned int nslots = (1u << (depth + 1)) - 1;

	for (unsigned int i = 0; i < TL_NSLOTS; i++) {
		slot[i] = NULL;
		if (i >= nslots)
			continue;
		bool present = ND_BOOL("slot.present");

#ifdef TL_SHAPE
		if (tl_shape_on)
			present = (tl_shape_mask >> i) & 1;
#endif
		if (i > 0 && !slot[(i - 1) / 2])
			present = false;
		if (!present)
			continue;
		tl_cur_slot = tl_shape_on ? (int)i : -1;
		slot[i] = tl_mk_node(ver, maxe);
		tl_cur_slot = -1;
		if (i > 0) {
			struct trie_node *p = slot[(i - 1) / 2];

			slot[i]->parent = p;
			if (i % 2 == 1)
				p->lchild = slot[i];
			else
				p->rchild = slot[i];
		}
	}
	return slot[0];
}

/* ---- RFC 6811 oracle on a flat snapshot ---- */
struct tl_oracle {
	unsigned int covering; /* records that cover the query */
	unsigned int matching; /* covering records with same non-zero AS and max_len >= query len */
};

static void tl_foracle(const struct tl_flat *f, uint32_t asn, const struct lrtr_ip_addr *q, unsigned int qlen,
		       struct tl_oracle *o)
{
	uint32_t qa[4] = {tl_word(q, 0), tl_word(q, 1), tl_word(q, 2), tl_word(q, 3)};

	o->covering = o->matching = 0;
	for (unsigned int i = 0; i < TL_NPOS; i++) {
		const struct tl_fnode *n = &f->n[i];

		if (!n->ptr || n->ver != q->ver)
			continue;
		if (n->len > qlen || !tl_words_prefix_eq(n->a, qa, n->len))
			continue;
		for (unsigned int k = 0; k < TL_MAXE; k++) {
			if (k >= n->nrec)
				break;
			o->covering++;
			if (n->e[k].asn != 0 && n->e[k].asn == asn && qlen <= n->e[k].max_len)
				o->matching++;
		}
	}
}

static bool tl_covers(const struct pfx_record *r, const struct lrtr_ip_addr *q, unsigned int qlen)
{
	return r->prefix.ver == q->ver && r->min_len <= qlen && tl_prefix_eq(&r->prefix, q, r->min_len);
}

/* ---- update callback recorder (C09) ---- */
static struct pfx_record cb_w;       /* the witness record */
static unsigned int cb_total;        /* callbacks seen */
static unsigned int cb_w_added;      /* callbacks (w, added)   */
static unsigned int cb_w_removed;    /* callbacks (w, removed) */
static int cb_lock_held;             /* a callback ran while the table lock was held */
static struct pfx_table *cb_table_expected;
static unsigned int cb_wrong_table;

static void tl_update_cb(struct pfx_table *t, const struct pfx_record rec, const bool added)
{
	cb_total++;
	if (cb_table_expected && t != cb_table_expected)
		cb_wrong_table++;
	if (tl_rec_eq(&rec, &cb_w)) {
		if (added)
			cb_w_added++;
		else
			cb_w_removed++;
	}
}

static void tl_cb_reset(const struct pfx_record *w)
{
	cb_w = *w;
	cb_total = cb_w_added = cb_w_removed = 0;
	cb_wrong_table = 0;
}

#endif
