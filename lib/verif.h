/*
 * Dual-mode harness primitives.
 *
 *  - under CBMC (goto-cc defines __CPROVER__): ND(type,"name") is a fresh symbolic
 *    value, recorded in the trace through __CPROVER_input so the driver can extract
 *    the counterexample; VASSERT is a solver obligation; VASSUME restricts inputs.
 *  - natively (-DVERIF_NATIVE, gcc + ASan/UBSan): ND() reads the next value of the
 *    counterexample from $VERIF_REPLAY_INPUTS (lines "name bits"), VASSERT aborts
 *    with exit code 42 and a message, a false VASSUME exits 77 ("replay diverged").
 *
 * Harness oracles never use plain assert(): the shipped build defines NDEBUG.
 */
#ifndef VERIF_H
#define VERIF_H

#include <stdbool.h>
#include <stddef.h>
#include <stdint.h>

typedef unsigned int uint;

#ifndef VERIF_NATIVE

uint8_t nondet_uint8_t(void);
uint16_t nondet_uint16_t(void);
uint32_t nondet_uint32_t(void);
uint64_t nondet_uint64_t(void);
int nondet_int(void);
uint nondet_uint(void);
_Bool nondet_bool(void);
long nondet_long(void);
size_t nondet_size_t(void);
char nondet_char(void);

#define ND(type, name)                         \
	({                                     \
		type _v = nondet_##type();     \
		__CPROVER_input(name, _v);     \
		_v;                            \
	})
#define ND_BOOL(name)                          \
	({                                     \
		uint8_t _b = nondet_uint8_t(); \
		__CPROVER_assume(_b <= 1);     \
		__CPROVER_input(name, _b);     \
		(bool)_b;                      \
	})
#define VASSERT(c, msg) __CPROVER_assert((c), msg)
#define VASSUME(c) __CPROVER_assume(c)
#define VCOVER_UNREACHABLE(msg) __CPROVER_assert(0, msg)

#else /* native replay */

#include <stdio.h>
#include <stdlib.h>
#include <string.h>

static FILE *verif_replay_fp;
static inline uint64_t verif_replay_next(const char *name, unsigned bits)
{
	char nm[256], val[512];

	if (!verif_replay_fp) {
		const char *p = getenv("VERIF_REPLAY_INPUTS");

		verif_replay_fp = p ? fopen(p, "r") : NULL;
		if (!verif_replay_fp) {
			fprintf(stderr, "REPLAY: no input file\n");
			exit(78);
		}
	}
	if (fscanf(verif_replay_fp, "%255s %511s", nm, val) != 2) {
		fprintf(stderr, "REPLAY-DIVERGED: inputs exhausted at %s\n", name);
		exit(77);
	}
	if (strcmp(nm, name) != 0) {
		fprintf(stderr, "REPLAY-DIVERGED: expected input %s, file has %s\n", name, nm);
		exit(77);
	}
	uint64_t v = 0;

	for (char *c = val; *c; c++)
		v = (v << 1) | (uint64_t)(*c == '1');
	(void)bits;
	return v;
}
#define ND(type, name) ((type)verif_replay_next(name, 8 * sizeof(type)))
#define ND_BOOL(name) ((bool)(verif_replay_next(name, 8) & 1))
#define VASSERT(c, msg)                                                         \
	do {                                                                    \
		if (!(c)) {                                                     \
			fprintf(stderr, "REPLAY-ASSERTION-VIOLATED: %s\n", msg); \
			fflush(NULL);                                           \
			_Exit(42);                                              \
		}                                                               \
	} while (0)
#define VASSUME(c)                                                              \
	do {                                                                    \
		if (!(c)) {                                                     \
			fprintf(stderr, "REPLAY-DIVERGED: assumption %s\n", #c); \
			fflush(NULL);                                           \
			_Exit(77);                                              \
		}                                                               \
	} while (0)
#define VCOVER_UNREACHABLE(msg) VASSERT(0, msg)
#define __CPROVER_assert(c, msg) VASSERT(c, msg)
#define __CPROVER_assume(c) VASSUME(c)

#endif

/* Reachability witness: under CBMC this is an assertion that MUST FAIL (the driver
 * demands a counterexample for it): it proves the end of the harness is reachable under
 * all assumptions, i.e. the other assertions did not pass vacuously.  No-op natively.
 */
#ifndef VERIF_NATIVE
#define VWITNESS(msg) __CPROVER_assert(0, "WITNESS " msg)
#else
#define VWITNESS(msg) \
	do {          \
	} while (0)
#endif

#endif
