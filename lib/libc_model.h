/*
 * Small models of libc functions whose CBMC built-ins are either missing or imprecise for our
 * purposes.  Only compiled under CBMC; native replays use glibc.
 *
 * snprintf: handles literal text, %u (exact digits below 10000, else the exact NUMBER of digits with
 * arbitrary digit values), %s, %c, %%.  Bytes of the
 * destination beyond the terminating NUL are left untouched (as glibc does), so that a caller that
 * sends more than strlen+1 bytes exposes its uninitialised tail.
 */
#ifndef LIBC_MODEL_H
#define LIBC_MODEL_H

#include "verif.h"

/* logging: empty body in both modes (log.c is not linked) */
void lrtr_dbg(const char *frmt, ...)
{
	(void)frmt;
}

#ifndef VERIF_NATIVE
#include <stdarg.h>
#include <stddef.h>

#ifndef SNPRINTF_MAX
#define SNPRINTF_MAX 96
#endif

static unsigned int lm_put(char *str, size_t size, unsigned int pos, char c)
{
	if (size > 0 && pos < size - 1)
		str[pos] = c;
	return pos + 1;
}

/* CBMC keeps variadic arguments in their declared type (no default promotion): reading a uint8_t
 * argument with va_arg(ap, unsigned int) is flagged by --pointer-check although it is what C does.
 * The model's own argument fetches are exempt from the pointer check; writes into the caller's
 * buffer (lm_put) stay checked.
 */
#pragma CPROVER check push
#pragma CPROVER check disable "pointer"
static unsigned int lm_va_uint(va_list *ap)
{
	return va_arg(*ap, unsigned int);
}

static int lm_va_int(va_list *ap)
{
	return va_arg(*ap, int);
}
#pragma CPROVER check pop

int snprintf(char *str, size_t size, const char *fmt, ...)
{
	va_list ap;
	unsigned int pos = 0;

	va_start(ap, fmt);
	for (unsigned int i = 0; i < SNPRINTF_MAX; i++) {
		char c = fmt[i];

		if (c == 0)
			break;
		if (c != '%') {
			pos = lm_put(str, size, pos, c);
			continue;
		}
		i++;
		c = fmt[i];
		if (c == '%') {
			pos = lm_put(str, size, pos, '%');
		} else if (c == 'u') {
			unsigned int v = lm_va_uint(&ap);

			if (v < 10000) {
				/* exact digits by comparison ladders (no division circuits) */
				unsigned int d3 = 0, d2 = 0, d1 = 0, r = v;

				for (unsigned int k = 0; k < 9; k++)
					if (r >= 1000) {
						r -= 1000;
						d3++;
					}
				for (unsigned int k = 0; k < 9; k++)
					if (r >= 100) {
						r -= 100;
						d2++;
					}
				for (unsigned int k = 0; k < 9; k++)
					if (r >= 10) {
						r -= 10;
						d1++;
					}
				if (v >= 1000)
					pos = lm_put(str, size, pos, (char)('0' + d3));
				if (v >= 100)
					pos = lm_put(str, size, pos, (char)('0' + d2));
				if (v >= 10)
					pos = lm_put(str, size, pos, (char)('0' + d1));
				pos = lm_put(str, size, pos, (char)('0' + r));
			} else {
				/* exact number of digits, arbitrary digit values */
				unsigned int nd = v < 100000 ? 5 : v < 1000000 ? 6 : v < 10000000 ? 7 : v < 100000000 ? 8 :
						  v < 1000000000 ? 9 : 10;

				for (unsigned int k = 0; k < 10; k++) {
					if (k >= nd)
						break;
					uint8_t dg = nondet_uint8_t();

					__CPROVER_assume(dg <= 9);
					pos = lm_put(str, size, pos, (char)('0' + dg));
				}
			}
		} else if (c == 'c') {
			int v = lm_va_int(&ap);

			pos = lm_put(str, size, pos, (char)v);
		} else if (c == 's') {
			const char *s = va_arg(ap, const char *);

			for (unsigned int k = 0; k < SNPRINTF_MAX; k++) {
				if (!s[k])
					break;
				pos = lm_put(str, size, pos, s[k]);
			}
		} else {
			__CPROVER_assert(0, "snprintf model: unsupported conversion");
		}
	}
	va_end(ap);
	if (size > 0)
		str[pos < size ? pos : size - 1] = 0;
	return (int)pos;
}

#ifdef LM_BYTE_MEMCPY
/* memcpy as an explicit byte loop (n is a constant at every call site of the code under test):
 * CBMC's built-in memcpy goes through array_copy/array_replace, i.e. the array theory, which costs
 * minutes on records with 20/91-byte arrays; plain byte assignments at constant indices do not.
 */
void *memcpy(void *dst, const void *src, size_t n)
{
	char *d = dst;
	const char *s = src;

	for (size_t i = 0; i < LM_BYTE_MEMCPY; i++) {
		if (i >= n)
			break;
		d[i] = s[i];
	}
	__CPROVER_assert(n <= LM_BYTE_MEMCPY, "memcpy model: size within LM_BYTE_MEMCPY");
	return dst;
}
#endif

size_t strlen(const char *s)
{
	for (unsigned int i = 0; i < SNPRINTF_MAX; i++)
		if (!s[i])
			return i;
	__CPROVER_assert(0, "strlen model: string longer than SNPRINTF_MAX");
	__CPROVER_assume(0);
	return 0;
}
#endif

#endif
