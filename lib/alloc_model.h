/*
 * Size-class allocator installed through rtrlib's public lrtr_set_alloc_functions().
 *
 * Why: an allocation whose size is a free symbolic term makes CBMC's array theory explode
 * (10-57 GB, no verdict).  Here every request is dispatched on its size to a malloc() of a
 * CONSTANT size (exact, so CBMC's bounds checks stay exact).  The harness lists the sizes
 * it expects in VM_SIZE_CLASSES (X-macro); a request of any other size is an assertion
 * failure of the model ("unexpected allocation size"), never silently accepted.
 *
 *   vm_fail_at   k>0: the k-th allocation request (malloc, or realloc that needs a block) returns NULL
 *   vm_live      ledger: blocks handed out and not yet returned through the configured free
 *   vm_requests  number of allocation requests so far
 *   vm_realloc_moves  if true realloc always moves the data into a fresh block (else nondet per call
 *                when VM_REALLOC_NONDET is defined, else in-place never: sizes are exact so a size
 *                change always needs a new block)
 */
#ifndef ALLOC_MODEL_H
#define ALLOC_MODEL_H

#include "verif.h"

#include <stdlib.h>
#include <string.h>

/* Classes are TYPED: X(type, count) allocates malloc(sizeof(type) * count) so that CBMC gives the
 * dynamic object its real C type (an untyped malloc(64) becomes a byte array and every field access
 * a byte_extract over a blown-up value set: measured 367k SSA steps vs 20k).  Requests arriving
 * through lrtr_malloc are matched against VM_MALLOC_CLASSES, those through lrtr_realloc against
 * VM_REALLOC_CLASSES; a type mismatch would only cost speed, never soundness.
 */
#if !defined(VM_MALLOC_CLASSES) || !defined(VM_REALLOC_CLASSES)
#error "define VM_MALLOC_CLASSES / VM_REALLOC_CLASSES as X(type,count) ... before including alloc_model.h"
#endif

void lrtr_set_alloc_functions(void *(*malloc_function)(size_t size), void *(*realloc_function)(void *ptr, size_t size),
			      void(free_function)(void *ptr));

static unsigned int vm_fail_at; /* 0 = never */
static unsigned int vm_requests;
static int vm_live;
static int vm_foreign_free; /* free() of a pointer that is not a live block of this allocator */

/* ghost: logical size is stored in a header-less side table keyed by slot; we keep only a
 * per-block size in front of the user data would change layouts, so instead blocks are exact
 * size and realloc learns the old size from the ledger below.
 */
#ifndef VM_MAX_BLOCKS
#define VM_MAX_BLOCKS 24
#endif
static void *vm_blk[VM_MAX_BLOCKS];
static size_t vm_blk_size[VM_MAX_BLOCKS];

#define X(type, count)                          \
	if (size == sizeof(type) * (count))      \
		return malloc(sizeof(type) * (count));
static void *vm_raw(size_t size)
{
	VM_MALLOC_CLASSES
	VASSERT(0, "allocator model: unexpected malloc size (add it to VM_MALLOC_CLASSES)");
	VASSUME(0);
	return NULL;
}

static void *vm_raw_re(size_t size)
{
#ifdef VM_CAP_MODE
	/* functional (non memory-safety) harnesses: ONE typed block of fixed capacity per array, so the
	 * array pointer's value set stays a single object; realloc is in place (a legal realloc
	 * behaviour).  Exact-size blocks + moving realloc are used by the memory-safety jobs.
	 */
	VASSERT(size <= sizeof(VM_REALLOC_TYPE) * (VM_REALLOC_CAP), "allocator model: request exceeds the fixed capacity (raise VM_REALLOC_CAP)");
	VASSUME(size <= sizeof(VM_REALLOC_TYPE) * (VM_REALLOC_CAP));
	return malloc(sizeof(VM_REALLOC_TYPE) * (VM_REALLOC_CAP));
#endif
	VM_REALLOC_CLASSES
	VASSERT(0, "allocator model: unexpected realloc size (add it to VM_REALLOC_CLASSES)");
	VASSUME(0);
	return NULL;
}
#undef X

#if defined(VM_LEDGER) || defined(VERIF_NATIVE)
#define VM_USE_LEDGER 1
#endif

static void vm_register(void *p, size_t size)
{
#ifndef VM_USE_LEDGER
	(void)p;
	(void)size;
	vm_live++;
	return;
#endif
	for (int i = 0; i < VM_MAX_BLOCKS; i++) {
		if (!vm_blk[i]) {
			vm_blk[i] = p;
			vm_blk_size[i] = size;
			vm_live++;
			return;
		}
	}
	VASSERT(0, "allocator model: ledger full (raise VM_MAX_BLOCKS)");
	VASSUME(0);
}

static int vm_find(void *p)
{
	for (int i = 0; i < VM_MAX_BLOCKS; i++)
		if (vm_blk[i] == p)
			return i;
	return -1;
}

static void *vm_malloc(size_t size)
{
	vm_requests++;
	if (vm_fail_at && vm_requests == vm_fail_at)
		return NULL;
	if (size == 0)
		return NULL;
	void *p = vm_raw(size);

	VASSUME(p != NULL);
	vm_register(p, size);
	return p;
}

static void vm_free(void *p)
{
	if (!p)
		return;
#ifndef VM_USE_LEDGER
	vm_live--;
	free(p);
	return;
#endif
	int i = vm_find(p);

	if (i < 0) {
		vm_foreign_free++;
		VASSERT(0, "allocator: configured free() called with a pointer that is not a live block of the configured allocator");
		return;
	}
	vm_blk[i] = NULL;
	vm_blk_size[i] = 0;
	vm_live--;
	free(p);
}

static void vm_copy(void *dst, const void *src, size_t n)
{
	/* n is min(old,new) of two typed size classes.  CBMC's built-in memcpy (array_replace) is
	 * wrong for a copy that covers only part of a typed destination object (observed: the
	 * destination keeps garbage), so the copy is done element-wise in the class's own type.
	 */
#ifdef VERIF_NATIVE
	memcpy(dst, src, n);
#else
#define X(type, count)                                                   \
	if (n == sizeof(type) * (count)) {                                \
		for (unsigned int i_ = 0; i_ < (count); i_++)             \
			((type *)dst)[i_] = ((const type *)src)[i_];      \
		return;                                                   \
	}
	VM_REALLOC_CLASSES
	VM_MALLOC_CLASSES
#undef X
	VASSERT(0, "allocator model: unexpected copy size");
#endif
}

static void *vm_realloc(void *p, size_t size)
{
	if (!p) {
		vm_requests++;
		if (vm_fail_at && vm_requests == vm_fail_at)
			return NULL;
		if (size == 0)
			return NULL;
		void *n = vm_raw_re(size);

		VASSUME(n != NULL);
		vm_register(n, size);
		return n;
	}
	if (size == 0) {
		vm_free(p);
		return NULL;
	}
#if defined(VM_CAP_MODE) && !defined(VERIF_NATIVE)
	VASSERT(size <= sizeof(VM_REALLOC_TYPE) * (VM_REALLOC_CAP), "allocator model: request exceeds the fixed capacity (raise VM_REALLOC_CAP)");
	vm_requests++;
	if (vm_fail_at && vm_requests == vm_fail_at)
		return NULL;
	return p;
#endif
#ifdef VM_USE_LEDGER
	int i = vm_find(p);

	if (i < 0) {
		VASSERT(0, "allocator: configured realloc() called with a pointer that is not a live block of the configured allocator");
		VASSUME(0);
	}
	size_t old = vm_blk_size[i];
#else
	size_t old = __CPROVER_OBJECT_SIZE(p); /* blocks are exact-size objects */
#endif

	if (old == size)
		return p;
	vm_requests++;
	if (vm_fail_at && vm_requests == vm_fail_at)
		return NULL; /* old block stays valid, as realloc guarantees */
	void *q = vm_raw_re(size);

	VASSUME(q != NULL);
	vm_copy(q, p, old < size ? old : size);
#ifdef VM_USE_LEDGER
	vm_blk[i] = q;
	vm_blk_size[i] = size;
#endif
	free(p);
	return q;
}

#ifdef VM_DIRECT
/* the harness does not link alloc_utils.c: rtrlib's allocation wrappers ARE the model */
void *lrtr_malloc(size_t size)
{
	return vm_malloc(size);
}

void *lrtr_realloc(void *ptr, size_t size)
{
	return vm_realloc(ptr, size);
}

void lrtr_free(void *ptr)
{
	vm_free(ptr);
}

static void vm_install(void)
{
}
#else
static void vm_install(void)
{
	lrtr_set_alloc_functions(vm_malloc, vm_realloc, vm_free);
}
#endif

#endif
