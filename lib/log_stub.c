/* logging: empty body (log.c is not linked) */
void lrtr_dbg(const char *frmt, ...)
{
	(void)frmt;
}
