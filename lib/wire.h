/*
 * Transport seam for harnesses that include the real packets.c:
 *   - a symbolic byte stream served by tr_recv_all() (function-level stub of transport.c's
 *     tr_recv_all; the real tr_recv_all/tr_send_all chunk loops are verified on their own in
 *     harness/transport_all.c),
 *   - a WIRE MONITOR in tr_send_all(): every byte sequence handed to the transport is recorded
 *     and checked to be exactly one well-formed RTR PDU (C14).
 *
 * Requires: packets.c already #included (enum pdu_type, struct pdu_header, RTR_MAX_PDU_LEN).
 */
#ifndef WIRE_H
#define WIRE_H

#include "verif.h"

#ifndef STREAM_LEN
#define STREAM_LEN 48
#endif
#ifndef SENT_MAX
#define SENT_MAX 96
#endif
#ifndef MAX_SENDS
#define MAX_SENDS 2
#endif

static uint8_t w_stream[STREAM_LEN];
static unsigned int w_pos;          /* bytes consumed so far */
static unsigned int w_pdu_start;    /* stream offset where the PDU being received starts */
static int w_recv_fault;            /* first transport error injected on receive (0 = none) */
static unsigned int w_recv_calls;

/* sends */
static unsigned int w_nsent;
static uint8_t w_sent[MAX_SENDS][SENT_MAX];
static unsigned int w_sent_len[MAX_SENDS];
static unsigned int w_sent_version[MAX_SENDS]; /* rtr_socket->version when the send happened */
static uint32_t w_sent_textlen[MAX_SENDS];     /* Error Report: text length field, read in place */
static bool w_sent_text_ok[MAX_SENDS];         /* Error Report: text is printable + optional final NUL */
static bool w_send_may_fail;
static const struct rtr_socket *w_sock;        /* the socket under test (for version at send time) */

static inline uint32_t w_be32(const uint8_t *p);
static inline uint16_t w_be16(const uint8_t *p);

static void w_init_stream(void)
{
	for (unsigned int i = 0; i < STREAM_LEN; i++)
		w_stream[i] = ND(uint8_t, "stream");
	w_pos = 0;
	w_pdu_start = 0;
	w_recv_fault = 0;
	w_recv_calls = 0;
	w_nsent = 0;
}

static int w_nd_tr_error(void)
{
	int e = ND(int, "tr.err");

	VASSUME(e == TR_ERROR || e == TR_WOULDBLOCK || e == TR_INTR || e == TR_CLOSED);
	return e;
}

int tr_recv_all(const struct tr_socket *socket, const void *pdu, const size_t len, const time_t timeout)
{
	(void)socket;
	(void)timeout;
	w_recv_calls++;
	bool fail = ND_BOOL("recv.fail");

	if (fail || len > STREAM_LEN - w_pos) { /* injected fault, or the symbolic stream is exhausted */
		int e = w_nd_tr_error();

		if (!w_recv_fault)
			w_recv_fault = e;
		return e;
	}
	uint8_t *dst = (uint8_t *)pdu;

	for (unsigned int i = 0; i < STREAM_LEN; i++) {
		if (i >= len)
			break;
		dst[i] = w_stream[w_pos + i];
	}
	w_pos += len;
	return (int)len;
}

int tr_send_all(const struct tr_socket *socket, const void *pdu, const size_t len, const time_t timeout)
{
	(void)socket;
	(void)timeout;
	const uint8_t *src = pdu;

	VASSERT(len >= 8, "C14 wire: at least a PDU header is sent");
	VASSERT(len <= RTR_MAX_PDU_LEN, "C14 wire: sent PDU does not exceed the client's own maximum PDU size");
	if (w_nsent < MAX_SENDS) {
		w_sent_len[w_nsent] = len;
		w_sent_version[w_nsent] = w_sock ? w_sock->version : 0;
		for (unsigned int i = 0; i < SENT_MAX; i++) {
			if (i >= len)
				break;
			w_sent[w_nsent][i] = src[i];
		}
#ifdef WIRE_INPLACE_TEXT
		/* long reports are not copied completely (SENT_MAX is small): the text part is checked in place */
		w_sent_textlen[w_nsent] = 0;
		w_sent_text_ok[w_nsent] = true;
		if (len >= 16 && src[1] == ERROR) {
			uint32_t enc = w_be32(src + 8);

			if ((uint64_t)16 + enc <= len) {
				uint32_t tl = w_be32(src + 12 + enc);

				w_sent_textlen[w_nsent] = tl;
				if ((uint64_t)16 + enc + tl == len) {
					for (unsigned int i = 0; i < WIRE_TEXT_MAX; i++) {
						if (i >= tl)
							break;
						uint8_t c = src[16 + enc + i];

						if (!((c >= 0x20 && c < 0x7f) || (c == 0 && i + 1 == tl)))
							w_sent_text_ok[w_nsent] = false;
					}
				}
			}
		}
#endif
	}
	w_nsent++;
#ifdef WIRE_ON_SEND
	WIRE_ON_SEND(src, (unsigned int)len);
#endif
	if (w_send_may_fail && ND_BOOL("send.fail"))
		return w_nd_tr_error();
	return (int)len;
}

static inline uint32_t w_be32(const uint8_t *p)
{
	return ((uint32_t)p[0] << 24) | ((uint32_t)p[1] << 16) | ((uint32_t)p[2] << 8) | p[3];
}

static inline uint16_t w_be16(const uint8_t *p)
{
	return (uint16_t)(((uint16_t)p[0] << 8) | p[1]);
}

/* generic well-formedness of send number k (C14): version, length field == bytes handed over */
static void w_check_sent_wellformed(unsigned int k)
{
	const uint8_t *b = w_sent[k];
	unsigned int len = w_sent_len[k];

	VASSERT(b[0] == w_sent_version[k], "C14 wire: PDU carries the negotiated protocol version");
	VASSERT(w_be32(b + 4) == len, "C14 wire: length field equals the number of bytes handed to the transport");
	VASSERT(b[1] == SERIAL_QUERY || b[1] == RESET_QUERY || b[1] == ERROR, "C14 wire: a router only sends queries and error reports");
	if (b[1] == SERIAL_QUERY)
		VASSERT(len == 12, "C14 wire: Serial Query is 12 bytes");
	if (b[1] == RESET_QUERY)
		VASSERT(len == 8 && b[2] == 0 && b[3] == 0, "C14 wire: Reset Query is 8 bytes, reserved zero");
}

/* Error Report number k: code, encapsulated copy == first enc_len bytes of orig[], text sane.
 * text bytes must be printable ASCII followed by one NUL, or empty: a byte of uninitialised stack
 * (unconstrained in CBMC) cannot satisfy this for all its values.
 */
static void w_check_error_report(unsigned int k, unsigned int code, const uint8_t *orig, unsigned int orig_len,
				 unsigned int max_enc)
{
	const uint8_t *b = w_sent[k];
	unsigned int len = w_sent_len[k];

	w_check_sent_wellformed(k);
	VASSERT(b[1] == ERROR, "C14 report: an Error Report is sent for the violation");
	VASSERT(w_be16(b + 2) == code, "C14 report: error code names the violation class");
	uint32_t enc = w_be32(b + 8);

	VASSERT(enc <= max_enc && enc <= orig_len, "C14 report: encapsulated PDU no longer than the offending PDU");
	VASSERT(12 + enc + 4 <= len, "C14 report: encapsulated length fits the PDU");
	if (12 + enc + 4 > len || enc > max_enc)
		return;
	bool same = true;

	for (unsigned int i = 0; i < SENT_MAX; i++) {
		if (i >= enc || i >= orig_len)
			break;
		if (b[12 + i] != orig[i])
			same = false;
	}
	VASSERT(same, "C14 report: encapsulated copy is a byte-exact prefix of the offending PDU as received");
	uint32_t tl = w_be32(b + 12 + enc);

	VASSERT(8 + 4 + enc + 4 + tl == len, "C14 report: text length consistent with the PDU length");
	if (8 + 4 + enc + 4 + tl != len)
		return;
	bool text_ok = true;

	for (unsigned int i = 0; i < SENT_MAX; i++) {
		if (i >= tl)
			break;
		uint8_t c = b[16 + enc + i];

		if (i + 1 == tl) {
			if (!(c == 0 || (c >= 0x20 && c < 0x7f)))
				text_ok = false;
		} else if (!(c >= 0x20 && c < 0x7f)) {
			text_ok = false;
		}
	}
	VASSERT(text_ok, "C14 report: error text is printable text (no uninitialised / stray bytes)");
}

#endif
