/*
 * C04-1 / C14: the REAL tr_recv_all / tr_send_all (transport.c) over a transport that delivers /
 * accepts ARBITRARY chunk sizes 1..remaining and may fail with any code at any call:
 * bytes land contiguously and identically for any chunking, the loops terminate, a failure is
 * passed through, nothing is written beyond the requested length.
 */
#include "verif.h"

#include "rtrlib/transport/transport.c"

#ifndef TLEN
#define TLEN 12
#endif

static uint8_t src[TLEN + 4];
static unsigned int served, calls;
static int fault;
static uint8_t sink[TLEN + 4];
static unsigned int accepted;

int lrtr_get_monotonic_time(time_t *seconds)
{
	*seconds = ND(uint32_t, "clock");
	return 0;
}

static int my_recv(const void *sock, void *pdu, const size_t len, const time_t timeout)
{
	(void)sock;
	(void)timeout;
	calls++;
	if (ND_BOOL("recv.fail")) {
		fault = ND(int, "recv.err");
		VASSUME(fault == TR_ERROR || fault == TR_WOULDBLOCK || fault == TR_INTR || fault == TR_CLOSED);
		return fault;
	}
	unsigned int n = ND(uint8_t, "recv.chunk");

	VASSUME(n >= 1 && n <= len);
	uint8_t *d = pdu;

	for (unsigned int i = 0; i < TLEN; i++) {
		if (i >= n)
			break;
		d[i] = src[served + i];
	}
	served += n;
	return (int)n;
}

static int my_send(const void *sock, const void *pdu, const size_t len, const time_t timeout)
{
	(void)sock;
	(void)timeout;
	calls++;
	if (ND_BOOL("send.fail")) {
		fault = ND(int, "send.err");
		VASSUME(fault == TR_ERROR || fault == TR_WOULDBLOCK || fault == TR_INTR || fault == TR_CLOSED);
		return fault;
	}
	unsigned int n = ND(uint8_t, "send.chunk");

	VASSUME(n >= 1 && n <= len);
	const uint8_t *s = pdu;

	for (unsigned int i = 0; i < TLEN; i++) {
		if (i >= n)
			break;
		sink[accepted + i] = s[i];
	}
	accepted += n;
	return (int)n;
}

void harness_recv(void)
{
	struct tr_socket tr;
	uint8_t buf[TLEN + 4];
	unsigned int len = ND(uint8_t, "len");

	VASSUME(len <= TLEN);
	tr.recv_fp = my_recv;
	tr.send_fp = my_send;
	for (unsigned int i = 0; i < TLEN + 4; i++) {
		src[i] = ND(uint8_t, "src");
		buf[i] = 0xA5;
	}
	served = calls = 0;
	fault = 0;
	int rc = tr_recv_all(&tr, buf, len, 60);

	if (fault) {
		VASSERT(rc == fault, "C04 recv_all: a transport failure is passed through unchanged");
	} else {
		VASSERT(rc == (int)len && served == len, "C04 recv_all: returns exactly the requested number of bytes");
		for (unsigned int i = 0; i < TLEN; i++)
			if (i < len)
				VASSERT(buf[i] == src[i], "C04 recv_all: bytes land contiguously, whatever the chunking");
	}
	for (unsigned int i = 0; i < TLEN + 4; i++)
		if (i >= len)
			VASSERT(buf[i] == 0xA5, "C04 recv_all: nothing is written beyond the requested length");
	VASSERT(calls <= len + 1, "C04 recv_all: terminates within len calls");
	VWITNESS("recv_all end");
}

void harness_send(void)
{
	struct tr_socket tr;
	uint8_t buf[TLEN + 4];
	unsigned int len = ND(uint8_t, "len");

	VASSUME(len <= TLEN);
	tr.recv_fp = my_recv;
	tr.send_fp = my_send;
	for (unsigned int i = 0; i < TLEN + 4; i++)
		buf[i] = ND(uint8_t, "buf");
	accepted = calls = 0;
	fault = 0;
	int rc = tr_send_all(&tr, buf, len, 60);

	if (fault) {
		VASSERT(rc == fault, "C14 send_all: a transport failure is passed through unchanged");
	} else {
		VASSERT(rc == (int)len && accepted == len, "C14 send_all: hands over exactly the PDU's bytes");
		for (unsigned int i = 0; i < TLEN; i++)
			if (i < len)
				VASSERT(sink[i] == buf[i], "C14 send_all: the bytes on the wire are the PDU, in order, however the transport splits the writes");
	}
	VASSERT(calls <= len + 1, "send_all: terminates within len calls");
	VWITNESS("send_all end");
}
