/*
 * C19: address <-> text conversion (real ipv4.c / ipv6.c / ip.c).
 *
 * libc formatting is environment: the four format strings used by the code get exact C models here
 * (CBMC only; the native self-test in scripts/c19_selftest.c checks the models and the reference
 * parser against glibc's printf/sscanf/inet_pton).
 *
 *  harness_v4_roundtrip   all 2^32 addresses: str_to_addr(to_str(a)) == a; NUL-terminated; nothing
 *                         written beyond the length told (symbolic length)
 *  harness_v6_determinism the parser run twice on one arbitrary string of <= STRN characters (fresh
 *                         uninitialised stack each time) returns the same code and the same address
 *  harness_v6_reference   every string of <= STRN characters that the reference parser (RFC 4291
 *                         section 2.2 as implemented by inet_pton) accepts is accepted with the same bits
 *  harness_v6_roundtrip   str_to_addr(to_str(a)) == a for all addresses of one zero-run SHAPE
 *                         (-DZMASK=bitmask of the 16-bit groups that are zero; other groups non-zero)
 *  harness_v6_bounds      to_str refuses buffers shorter than INET6_ADDRSTRLEN and never writes beyond 46
 */
#include "verif.h"

#include <arpa/inet.h>
#include <stdarg.h>
#include <string.h>

#include "rtrlib/lib/ip_private.h"

#ifndef STRN
#define STRN 12
#endif

#if !defined(VERIF_NATIVE) || defined(MODEL_SELFTEST)
#ifdef MODEL_SELFTEST /* native self-test: the models get private names and are compared with glibc */
#define snprintf m_snprintf
#define sprintf m_sprintf
#define __isoc99_sscanf m_sscanf
#define strchr m_strchr
#endif
/* CBMC keeps variadic arguments in their declared type (no default argument promotion); natively the
 * promoted type must be used
 */
#ifdef VERIF_NATIVE
#define VA_U8 int
#define VA_U16 int
#else
#define VA_U8 uint8_t
#define VA_U16 uint16_t
#endif
/* ---------------- exact models of the libc calls made by ipv4.c / ipv6.c ---------------- */
static unsigned int put_dec_u8(char *b, unsigned int pos, size_t size, unsigned int v)
{
	unsigned int h = 0, t = 0;

	if (v >= 200) {
		h = 2;
		v -= 200;
	} else if (v >= 100) {
		h = 1;
		v -= 100;
	}
	for (unsigned int k = 0; k < 9; k++)
		if (v >= 10) {
			v -= 10;
			t++;
		}
	if (h) {
		if (pos + 1 < size || size == (size_t)-1)
			b[pos] = (char)('0' + h);
		pos++;
	}
	if (h || t) {
		if (pos + 1 < size || size == (size_t)-1)
			b[pos] = (char)('0' + t);
		pos++;
	}
	if (pos + 1 < size || size == (size_t)-1)
		b[pos] = (char)('0' + v);
	return pos + 1;
}

static unsigned int put_c(char *b, unsigned int pos, size_t size, char c)
{
	if (pos + 1 < size || size == (size_t)-1)
		b[pos] = c;
	return pos + 1;
}

/* snprintf(str, len, "%hhu.%hhu.%hhu.%hhu", a, b, c, d) */
int snprintf(char *str, size_t size, const char *fmt, ...)
{
	va_list ap;
	unsigned int pos = 0;

	VASSERT(fmt[0] == '%' && fmt[1] == 'h' && fmt[2] == 'h' && fmt[3] == 'u' && fmt[4] == '.', "snprintf model: only the dotted-quad format is modelled");
	va_start(ap, fmt);
	for (unsigned int i = 0; i < 4; i++) {
		/* CBMC keeps variadic arguments in their declared type (uint8_t here), no default promotion */
		unsigned int v = (uint8_t)va_arg(ap, VA_U8);

		pos = put_dec_u8(str, pos, size, v);
		if (i < 3)
			pos = put_c(str, pos, size, '.');
	}
	va_end(ap);
	if (size > 0)
		str[pos < size ? pos : size - 1] = 0;
	return (int)pos;
}

static char hexd(unsigned int v)
{
	return (char)(v < 10 ? '0' + v : 'a' + (v - 10));
}

/* sprintf(b, "%x", w)  and  sprintf(b, "::%s%d.%d.%d.%d", s, a, b, c, d) */
int sprintf(char *b, const char *fmt, ...)
{
	va_list ap;
	unsigned int pos = 0;

	va_start(ap, fmt);
	if (fmt[0] == '%' && fmt[1] == 'x') {
		unsigned int v = (uint16_t)va_arg(ap, VA_U16);

		VASSERT(v <= 0xffff, "sprintf model: %x of a 16-bit group");
		if (v >= 0x1000)
			b[pos++] = hexd((v >> 12) & 0xf);
		if (v >= 0x100)
			b[pos++] = hexd((v >> 8) & 0xf);
		if (v >= 0x10)
			b[pos++] = hexd((v >> 4) & 0xf);
		b[pos++] = hexd(v & 0xf);
	} else {
		VASSERT(fmt[0] == ':' && fmt[1] == ':' && fmt[2] == '%' && fmt[3] == 's', "sprintf model: only %x and the embedded-IPv4 format are modelled");
		const char *s = va_arg(ap, const char *);

		b[pos++] = ':';
		b[pos++] = ':';
		for (unsigned int i = 0; i < 6; i++) {
			if (!s[i])
				break;
			b[pos++] = s[i];
		}
		for (unsigned int i = 0; i < 4; i++) {
			unsigned int v = va_arg(ap, unsigned int);

			VASSERT(v <= 255, "sprintf model: %d of an octet");
			pos = put_dec_u8(b, pos, (size_t)-1, v);
			if (i < 3)
				b[pos++] = '.';
		}
	}
	va_end(ap);
	b[pos] = 0;
	return (int)pos;
}

static bool is_space(char c)
{
	return c == ' ' || (c >= '\t' && c <= '\r');
}

/* sscanf(str, "%3hhu.%3hhu.%3hhu.%3hhu", &a, &b, &c, &d) */
int __isoc99_sscanf(const char *str, const char *fmt, ...)
{
	va_list ap;
	unsigned int p = 0;
	int n = 0;

	VASSERT(fmt[0] == '%' && fmt[1] == '3' && fmt[2] == 'h', "sscanf model: only the dotted-quad format is modelled");
	va_start(ap, fmt);
	for (unsigned int f = 0; f < 4; f++) {
		uint8_t *out = va_arg(ap, uint8_t *);
		unsigned int width = 3, v = 0, digits = 0;
		bool neg = false;

		for (unsigned int k = 0; k < STRN + 48; k++) {
			if (!is_space(str[p]))
				break;
			p++;
		}
		if (str[p] == '+' || str[p] == '-') {
			neg = str[p] == '-';
			p++;
			width--;
		}
		for (unsigned int k = 0; k < 3; k++) {
			if (k >= width || str[p] < '0' || str[p] > '9')
				break;
			v = v * 10 + (unsigned int)(str[p] - '0');
			p++;
			digits++;
		}
		if (!digits)
			break;
		*out = (uint8_t)(neg ? (0u - v) : v);
		n++;
		if (f < 3) {
			if (str[p] != '.')
				break;
			p++;
		}
	}
	va_end(ap);
	return n;
}

char *strchr(const char *s, int c)
{
	for (unsigned int i = 0; i < STRN + 48; i++) {
		if (s[i] == (char)c)
			return (char *)s + i;
		if (!s[i])
			return NULL;
	}
	return NULL;
}
#ifdef MODEL_SELFTEST
#undef snprintf
#undef sprintf
#undef __isoc99_sscanf
#undef strchr
#endif
#endif /* !VERIF_NATIVE */

/* ---------------- reference parser: RFC 4291 2.2 as accepted by inet_pton(AF_INET6) ---------------- */
static int ref_pton4(const char *src, uint8_t *dst)
{
	int saw_digit = 0, octets = 0;
	unsigned int val = 0;
	unsigned int tp = 0;

	dst[0] = 0;
	for (unsigned int i = 0; i < STRN + 48; i++) {
		char ch = src[i];

		if (ch == 0)
			break;
		if (ch >= '0' && ch <= '9') {
			unsigned int nw = val * 10 + (unsigned int)(ch - '0');

			if (saw_digit && val == 0)
				return 0;
			if (nw > 255)
				return 0;
			val = nw;
			dst[tp] = (uint8_t)nw;
			if (!saw_digit) {
				if (++octets > 4)
					return 0;
				saw_digit = 1;
			}
		} else if (ch == '.' && saw_digit) {
			if (octets == 4)
				return 0;
			tp++;
			dst[tp] = 0;
			val = 0;
			saw_digit = 0;
		} else {
			return 0;
		}
	}
	if (octets < 4)
		return 0;
	return 1;
}

static int ref_pton6(const char *src, uint16_t *w)
{
	uint8_t tmp[16];
	unsigned int tp = 0, p = 0, curtok;
	int colonp = -1;
	unsigned int seen = 0, val = 0;

	for (unsigned int i = 0; i < 16; i++)
		tmp[i] = 0;
	if (src[p] == ':') {
		p++;
		if (src[p] != ':')
			return 0;
	}
	curtok = p;
	for (unsigned int it = 0; it < STRN + 48; it++) {
		char ch = src[p];

		if (ch == 0)
			break;
		p++;
		int d = -1;

		if (ch >= '0' && ch <= '9')
			d = ch - '0';
		else if (ch >= 'a' && ch <= 'f')
			d = ch - 'a' + 10;
		else if (ch >= 'A' && ch <= 'F')
			d = ch - 'A' + 10;
		if (d >= 0) {
			val = (val << 4) | (unsigned int)d;
			if (++seen > 4)
				return 0;
			continue;
		}
		if (ch == ':') {
			curtok = p;
			if (!seen) {
				if (colonp >= 0)
					return 0;
				colonp = (int)tp;
				continue;
			} else if (src[p] == 0) {
				return 0;
			}
			if (tp + 2 > 16)
				return 0;
			tmp[tp++] = (uint8_t)(val >> 8);
			tmp[tp++] = (uint8_t)val;
			seen = 0;
			val = 0;
			continue;
		}
		if (ch == '.' && tp + 4 <= 16 && ref_pton4(src + curtok, tmp + tp) > 0) {
			tp += 4;
			seen = 0;
			break;
		}
		return 0;
	}
	if (seen) {
		if (tp + 2 > 16)
			return 0;
		tmp[tp++] = (uint8_t)(val >> 8);
		tmp[tp++] = (uint8_t)val;
	}
	if (colonp >= 0) {
		if (tp == 16)
			return 0;
		unsigned int n = tp - (unsigned int)colonp;

		for (unsigned int i = 1; i <= 16; i++) {
			if (i > n)
				break;
			tmp[16 - i] = tmp[(unsigned int)colonp + n - i];
			tmp[(unsigned int)colonp + n - i] = 0;
		}
		tp = 16;
	}
	if (tp != 16)
		return 0;
	for (unsigned int i = 0; i < 8; i++)
		w[i] = (uint16_t)((tmp[2 * i] << 8) | tmp[2 * i + 1]);
	return 1;
}

#ifndef REF_SELFTEST
static void nd_string(char *s)
{
	for (unsigned int i = 0; i < STRN; i++)
		s[i] = (char)ND(uint8_t, "ch");
	s[STRN] = 0;
}

void harness_v4_roundtrip(void)
{
	struct lrtr_ipv4_addr a, b;
	char buf[24];
	uint8_t guard[24];
	unsigned int len = ND(uint8_t, "len");

	VASSUME(len <= 20);
	a.addr = ND(uint32_t, "addr");
	for (unsigned int i = 0; i < 24; i++) {
		guard[i] = ND(uint8_t, "guard");
		buf[i] = (char)guard[i];
	}
	int rc = lrtr_ipv4_addr_to_str(&a, buf, len);

	VASSERT(rc == 0, "v4 to_str: succeeds");
	for (unsigned int i = 0; i < 24; i++)
		if (i >= len)
			VASSERT((uint8_t)buf[i] == guard[i], "C19 v4 to_str: never writes beyond the buffer length it was told");
	if (len >= 16) {
		bool nul = false;

		for (unsigned int i = 0; i < 16; i++)
			if (!buf[i])
				nul = true;
		VASSERT(nul, "C19 v4 to_str: output is NUL-terminated within 16 bytes");
		b.addr = ~a.addr;
		rc = lrtr_ipv4_str_to_addr(buf, &b);
		VASSERT(rc == 0 && b.addr == a.addr, "C19 v4: every address converted to text parses back to the same address");
		/* and the platform's dotted-quad grammar accepts it with the same result */
		uint8_t o[4];

		VASSERT(ref_pton4(buf, o) == 1 && (((uint32_t)o[0] << 24) | (o[1] << 16) | (o[2] << 8) | o[3]) == a.addr,
			"C19 v4: the reference inet_pton grammar accepts the text with the same result");
	}
	VWITNESS("v4 roundtrip end");
}

void harness_v6_determinism(void)
{
	char s[STRN + 1];
	struct lrtr_ipv6_addr x, y;

	nd_string(s);
	for (int i = 0; i < 4; i++) {
		x.addr[i] = ND(uint32_t, "x.init");
		y.addr[i] = ND(uint32_t, "y.init");
	}
	int r1 = lrtr_ipv6_str_to_addr(s, &x);
	int r2 = lrtr_ipv6_str_to_addr(s, &y);

	VASSERT(r1 == r2, "C19 v6 parse: the return code depends only on the text");
	if (r1 == 0 && r2 == 0)
		VASSERT(x.addr[0] == y.addr[0] && x.addr[1] == y.addr[1] && x.addr[2] == y.addr[2] && x.addr[3] == y.addr[3],
			"C19 v6 parse: the resulting address depends only on the text (no uninitialised words)");
	VWITNESS("v6 determinism end");
}

void harness_v6_reference(void)
{
	char s[STRN + 1];
	struct lrtr_ipv6_addr x;
	uint16_t w[8];

	nd_string(s);
	for (int i = 0; i < 4; i++)
		x.addr[i] = ND(uint32_t, "x.init");
	int ok = ref_pton6(s, w);
	int rc = lrtr_ipv6_str_to_addr(s, &x);

	if (ok) {
		VASSERT(rc == 0, "C19 v6 parse: every string the reference inet_pton grammar accepts is accepted");
		if (rc == 0)
			for (int i = 0; i < 4; i++)
				VASSERT(x.addr[i] == (((uint32_t)w[2 * i] << 16) | w[2 * i + 1]), "C19 v6 parse: ... with the same result");
	}
	VWITNESS("v6 reference end");
}

/* every compressed text form "g:g::g:..." in which "::" stands for DC_LEN groups starting at group
 * DC_POS (DC_LEN = 0: no "::"); the written groups are arbitrary 1..2-digit hex numbers.  The text is
 * produced by the harness, not by the library's formatter, so forms the formatter never emits (e.g.
 * "::" for a single group) are covered.
 */
#ifndef DC_POS
#define DC_POS 7
#endif
#ifndef DC_LEN
#define DC_LEN 1
#endif
#ifndef DC_DIGITS
#define DC_DIGITS 1
#endif
void harness_v6_compressed(void)
{
	char s[48];
	unsigned int n = 0;
	uint16_t g[8], w[8];
	struct lrtr_ipv6_addr x;

	for (unsigned int i = 0; i < 8; i++) {
		bool zero = DC_LEN > 0 && i >= DC_POS && i < DC_POS + DC_LEN;

		g[i] = 0;
		if (zero) {
			if (i == DC_POS) { /* the "::" that stands for groups DC_POS .. DC_POS+DC_LEN-1 */
				s[n++] = ':';
				s[n++] = ':';
			}
			continue;
		}
		/* DC_DIGITS hex digits per written group (concrete count, symbolic digits, symbolic case):
		 * string positions stay constants for the symbolic execution
		 */
		g[i] = ND(uint16_t, "group");
#if DC_DIGITS < 4
		VASSUME(g[i] < (1u << (4 * DC_DIGITS)));
#endif
		if (n > 0 && s[n - 1] != ':')
			s[n++] = ':';
		for (int d = DC_DIGITS - 1; d >= 0; d--) {
			unsigned int l = (g[i] >> (4 * d)) & 0xf;

			s[n++] = (char)(l < 10 ? '0' + l : (ND_BOOL("upper") ? 'A' : 'a') + l - 10);
		}
	}
	s[n] = 0;
	for (int i = 0; i < 4; i++)
		x.addr[i] = ND(uint32_t, "x.init");
	int ok = ref_pton6(s, w);

	VASSERT(ok == 1, "C19 compressed: the reference inet_pton grammar accepts the constructed text");
	for (int i = 0; i < 8; i++)
		VASSERT(!ok || w[i] == g[i], "C19 compressed: the reference yields the constructed groups");
	int rc = lrtr_ipv6_str_to_addr(s, &x);

	VASSERT(rc == 0, "C19 v6 parse: every compressed form inet_pton accepts is accepted");
	if (rc == 0)
		for (int i = 0; i < 4; i++)
			VASSERT(x.addr[i] == (((uint32_t)g[2 * i] << 16) | g[2 * i + 1]), "C19 v6 parse: ... with the same result");
	VWITNESS("v6 compressed end");
}

#ifndef ZMASK
#define ZMASK 0x3c
#endif
void harness_v6_roundtrip(void)
{
	struct lrtr_ipv6_addr a, b;
	uint16_t g[8], w[8];
	char buf[64];

	for (unsigned int i = 0; i < 8; i++) {
		g[i] = ND(uint16_t, "group");
		if (ZMASK & (0x80 >> i))
			VASSUME(g[i] == 0);
		else
			VASSUME(g[i] != 0);
#ifdef RT_DIGITS
		/* every non-zero group is printed with exactly RT_DIGITS hex digits: keeps all string positions
		 * constant for the symbolic execution (mixed digit counts are outside this job's bound)
		 */
		if (!(ZMASK & (0x80 >> i)))
			VASSUME(g[i] >= (1u << (4 * (RT_DIGITS - 1))) && (RT_DIGITS == 4 || g[i] < (1u << (4 * RT_DIGITS))));
#endif
	}
	for (int i = 0; i < 4; i++)
		a.addr[i] = ((uint32_t)g[2 * i] << 16) | g[2 * i + 1];
	for (unsigned int i = 0; i < 64; i++)
		buf[i] = (char)0x7e;
	int rc = lrtr_ipv6_addr_to_str(&a, buf, INET6_ADDRSTRLEN);

	VASSERT(rc == 0, "v6 to_str: succeeds with a full-size buffer");
	bool nul = false;

	for (unsigned int i = 0; i < 64; i++) {
		if (i < INET6_ADDRSTRLEN && !buf[i])
			nul = true;
		if (i >= INET6_ADDRSTRLEN)
			VASSERT(buf[i] == (char)0x7e, "C19 v6 to_str: never writes beyond the buffer length it was told");
	}
	VASSERT(nul, "C19 v6 to_str: output NUL-terminated within INET6_ADDRSTRLEN");
	for (int i = 0; i < 4; i++)
		b.addr[i] = ~a.addr[i];
	rc = lrtr_ipv6_str_to_addr(buf, &b);
	VASSERT(rc == 0 && b.addr[0] == a.addr[0] && b.addr[1] == a.addr[1] && b.addr[2] == a.addr[2] && b.addr[3] == a.addr[3],
		"C19 v6: every address converted to text parses back to the same address");
	VASSERT(ref_pton6(buf, w) == 1, "C19 v6: the reference inet_pton grammar accepts the generated text");
	for (int i = 0; i < 8; i++)
		VASSERT(w[i] == g[i], "C19 v6: ... with the same result");
	VWITNESS("v6 roundtrip end");
}

void harness_v6_bounds(void)
{
	struct lrtr_ipv6_addr a;
	char buf[8];
	unsigned int len = ND(uint8_t, "len");

	for (int i = 0; i < 4; i++)
		a.addr[i] = ND(uint32_t, "addr");
	VASSUME(len < INET6_ADDRSTRLEN);
	for (unsigned int i = 0; i < 8; i++)
		buf[i] = 0x55;
	int rc = lrtr_ipv6_addr_to_str(&a, buf, len);

	VASSERT(rc == -1, "C19 v6 to_str: a buffer shorter than INET6_ADDRSTRLEN is refused");
	for (unsigned int i = 0; i < 8; i++)
		VASSERT(buf[i] == 0x55, "C19 v6 to_str: a refused conversion writes nothing");
	VWITNESS("v6 bounds end");
}
#endif
