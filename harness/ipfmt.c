/*
 * C19, the IPv6 FORMATTER: lrtr_ipv6_addr_to_str(a) parses back to a -- with the real
 * lrtr_ipv6_str_to_addr and with the reference inet_pton grammar -- for all addresses of one
 * LAYOUT CLASS.
 *
 * The text positions of the formatter's output depend on the data (which 16-bit groups are zero,
 * how many hex digits each group needs); with both symbolic no job returned a verdict (DESIGN.md
 * section 8).  Here the driver enumerates the layout and the solver gets the data:
 *   -DZMASK=m     bit (0x80 >> i) set: group i is the literal 0; clear: group i is non-zero
 *   -DFDIG=d      every non-zero group has exactly d hex digits (1..4)
 *   -DKBIT=k      ... and bit k (0..3) of its leading digit set: g = (x & (16^d - 1)) | 1 << (4(d-1)+k), x free.
 *                 Written like this, "group is non-zero" and "group has d digits" are visible to the
 *                 symbolic execution itself (constant folding), so the formatter's own control flow --
 *                 the search for the longest zero run, the advance of the output pointer -- is concrete and
 *                 only the digit characters stay symbolic.  The union over k = 0..3 covers every group
 *                 value whose digits agree with FDIG; groups of one address share k (stated bound).
 *   -DHEXPLAN=... digits of the k-th "%x" conversion, computed by the driver from ZMASK/FDIG for the canonical
 *                 form (first longest run of >= 2 zero groups compressed).  The sprintf model ASSUMES that
 *                 the value it is handed has that many digits: if the library ever formats differently
 *                 (another valid choice of the run), the job becomes vacuous and is reported INCONCLUSIVE
 *                 by its reachability witness -- never a false alarm.
 */
#define sprintf ipstr_sprintf
#include "ipstr.c"
#undef sprintf

#ifndef FDIG
#define FDIG 1
#endif
#ifndef KBIT
#define KBIT 0
#endif
#ifndef HEXPLAN
#define HEXPLAN 1, 1, 1, 1, 1, 1, 1, 1
#endif

#ifndef VERIF_NATIVE
static const uint8_t hexplan[] = {HEXPLAN};
static unsigned int hex_calls;

int sprintf(char *b, const char *fmt, ...)
{
	va_list ap;

	va_start(ap, fmt);
	if (fmt[0] == '%' && fmt[1] == 'x') {
		unsigned int v = (uint16_t)va_arg(ap, VA_U16);
		unsigned int pos = 0;

		VASSUME(hex_calls < sizeof(hexplan));
		const unsigned int nd = hexplan[hex_calls++];

		VASSUME(nd >= 1 && nd <= 4);
		VASSUME(nd == 4 || v < (1u << (4 * nd)));
		VASSUME(nd == 1 || v >= (1u << (4 * (nd - 1))));
		if (nd >= 4)
			b[pos++] = hexd((v >> 12) & 0xf);
		if (nd >= 3)
			b[pos++] = hexd((v >> 8) & 0xf);
		if (nd >= 2)
			b[pos++] = hexd((v >> 4) & 0xf);
		b[pos++] = hexd(v & 0xf);
		b[pos] = 0;
		va_end(ap);
		return (int)pos;
	}
	/* the embedded-IPv4 form: hand the arguments on to the model of ipstr.c */
	const char *s = va_arg(ap, const char *);
	unsigned int o0 = va_arg(ap, unsigned int), o1 = va_arg(ap, unsigned int), o2 = va_arg(ap, unsigned int),
		     o3 = va_arg(ap, unsigned int);

	va_end(ap);
	return ipstr_sprintf(b, fmt, s, o0, o1, o2, o3);
}
#endif

void harness_v6_format(void)
{
	struct lrtr_ipv6_addr a, b;
	uint16_t g[8], w[8];
	char buf[64];

	for (unsigned int i = 0; i < 8; i++) {
		if (ZMASK & (0x80 >> i)) {
			g[i] = 0;
		} else {
			uint16_t x = ND(uint16_t, "group");

			g[i] = (uint16_t)((x & ((1u << (4 * FDIG)) - 1)) | (1u << (4 * (FDIG - 1) + KBIT)));
		}
	}
	for (int i = 0; i < 4; i++)
		a.addr[i] = ((uint32_t)g[2 * i] << 16) | g[2 * i + 1];
	for (unsigned int i = 0; i < 64; i++)
		buf[i] = (char)0x7e;
	int rc = lrtr_ipv6_addr_to_str(&a, buf, INET6_ADDRSTRLEN);

	VASSERT(rc == 0, "v6 to_str: succeeds with a full-size buffer");
	bool nul = false;

	for (unsigned int i = 0; i < 64; i++) {
		if (i < INET6_ADDRSTRLEN && !buf[i])
			nul = true;
		if (i >= INET6_ADDRSTRLEN)
			VASSERT(buf[i] == (char)0x7e, "C19 v6 to_str: never writes beyond the buffer length it was told");
	}
	VASSERT(nul, "C19 v6 to_str: output NUL-terminated within INET6_ADDRSTRLEN");
	VASSERT(ref_pton6(buf, w) == 1, "C19 v6: the reference inet_pton grammar accepts the text produced for an address");
	for (int i = 0; i < 8; i++)
		VASSERT(w[i] == g[i], "C19 v6: the reference inet_pton grammar reads the produced text back as the same address");
	for (int i = 0; i < 4; i++)
		b.addr[i] = ~a.addr[i];
	rc = lrtr_ipv6_str_to_addr(buf, &b);
	VASSERT(rc == 0 && b.addr[0] == a.addr[0] && b.addr[1] == a.addr[1] && b.addr[2] == a.addr[2] && b.addr[3] == a.addr[3],
		"C19 v6: every address converted to text parses back to the same address");
	VWITNESS("v6 format end");
}
