/*
 * C02 / C09 / C18: ONE public prefix-table operation from an ARBITRARY valid table.
 *
 * Pre-state: family FAM holds an arbitrary trie inside template(TD,TE) (every slot optional,
 * every field symbolic) constrained only by the representation invariant Inv; the other
 * family holds an arbitrary 0/1-node trie.  Then one real pfx_table_* call with an arbitrary
 * record / source.  Oracle: set algebra on a universally quantified witness record w
 * (count by full traversal, independent of the code's search), Inv afterwards, return code,
 * callbacks (C09), allocation failure containment (C18, -DALLOC_FAIL).
 *
 * Since {} |= Inv and every operation preserves Inv, the set semantics follow for every
 * history whose tries stay inside the template (induction; see DESIGN.md section 1).
 */
#include "trie_lib.h"

#define FAMV (FAM == 4 ? LRTR_IPV4 : LRTR_IPV6)
#define OTHV (FAM == 4 ? LRTR_IPV6 : LRTR_IPV4)

static struct pfx_table T;
static struct tl_snap S0, S1;

static void setup(void)
{
	vm_install();
	pfx_table_init(&T, tl_update_cb);
	tl_shape_on = true;
	struct trie_node *a = tl_template(FAMV, TD, TE);

	tl_shape_on = false;
	struct trie_node *b = tl_template(OTHV, 0, 1);

	if (FAM == 4) {
		T.ipv4 = a;
		T.ipv6 = b;
	} else {
		T.ipv6 = a;
		T.ipv4 = b;
	}
	tl_snapshot(&T, &S0);
	VASSUME(tl_sinv(&S0, TE));
	hv_table = &T;
	hv_scramble(); /* C16: no lock is held between calls */
#ifdef ALLOC_FAIL
	vm_requests = 0;
	vm_fail_at = ND(uint8_t, "fail_at");
	VASSUME(vm_fail_at <= 6);
#endif
}

static struct pfx_record nd_any_record(void)
{
	/* the operated record: mostly in the big family; the witness may be in either */
	bool other = ND_BOOL("rec.otherfam");

	return tl_nd_record(other ? OTHV : FAMV);
}

void harness_add(void)
{
	setup();
	struct pfx_record r = nd_any_record();
	struct pfx_record w = nd_any_record();
	unsigned int pre_w = tl_scount(&S0, &w), pre_r = tl_scount(&S0, &r), pre_total = tl_stotal(&S0);

	tl_cb_reset(&w);
	int rc = pfx_table_add(&T, &r);
	hv_restore();
	tl_snapshot(&T, &S1);
	unsigned int post_w = tl_scount(&S1, &w), post_total = tl_stotal(&S1);
	bool w_is_r = tl_rec_eq(&w, &r);

	VASSERT(pre_r <= 1, "Inv implies a record is stored at most once");
#ifndef ALLOC_FAIL
#ifdef ASSERT_C02
	VASSERT(rc == PFX_SUCCESS || rc == PFX_DUPLICATE_RECORD, "add: returns SUCCESS or DUPLICATE");
	VASSERT((rc == PFX_DUPLICATE_RECORD) == (pre_r == 1), "add: DUPLICATE exactly when the record was present");
	VASSERT(post_w == pre_w + ((rc == PFX_SUCCESS && w_is_r) ? 1 : 0),
		"add: multiplicity of every record w changes by [w==r and added]");
	VASSERT(post_total == pre_total + (rc == PFX_SUCCESS ? 1 : 0), "add: total number of records");
	VASSERT(tl_sinv(&S1, TE + 1), "add: Inv preserved");
#endif
#ifdef ASSERT_C09
	VASSERT(cb_total == (rc == PFX_SUCCESS ? 1u : 0u), "C09 add: exactly one callback iff the table changed");
	VASSERT(cb_w_added == ((rc == PFX_SUCCESS && w_is_r) ? 1u : 0u), "C09 add: callback reports exactly the added record");
	VASSERT(cb_w_removed == 0, "C09 add: no removal reported");
	VASSERT((int)cb_w_added - (int)cb_w_removed == (int)post_w - (int)pre_w, "C09 add: callbacks equal the change of contents");
#endif
#else
	/* C18: k-th allocation fails */
	VASSERT(rc == PFX_SUCCESS || rc == PFX_DUPLICATE_RECORD || rc == PFX_ERROR, "add: return code");
	if (rc == PFX_ERROR) {
		VASSERT(post_w == pre_w, "C18 add: failed add has no effect on any record");
		VASSERT(post_total == pre_total, "C18 add: failed add leaves the number of records unchanged");
		VASSERT(cb_total == 0, "C18 add: failed add reports no change");
	} else {
		VASSERT(post_w == pre_w + ((rc == PFX_SUCCESS && w_is_r) ? 1 : 0), "C18 add: set semantics when no error is reported");
	}
	VASSERT(tl_sinv(&S1, TE + 1), "C18 add: Inv preserved under allocation failure");
#endif
	VWITNESS("add end");
}

void harness_remove(void)
{
	setup();
	struct pfx_record r = nd_any_record();
	struct pfx_record w = nd_any_record();
	unsigned int pre_w = tl_scount(&S0, &w), pre_r = tl_scount(&S0, &r), pre_total = tl_stotal(&S0);

	tl_cb_reset(&w);
	int rc = pfx_table_remove(&T, &r);
	hv_restore();
	tl_snapshot(&T, &S1);
	unsigned int post_w = tl_scount(&S1, &w), post_total = tl_stotal(&S1);
	bool w_is_r = tl_rec_eq(&w, &r);

#ifndef ALLOC_FAIL
#ifdef ASSERT_C02
	VASSERT(rc == PFX_SUCCESS || rc == PFX_RECORD_NOT_FOUND, "remove: returns SUCCESS or NOT_FOUND");
	VASSERT((rc == PFX_RECORD_NOT_FOUND) == (pre_r == 0), "remove: NOT_FOUND exactly when the record was absent");
	VASSERT(post_w + ((rc == PFX_SUCCESS && w_is_r) ? 1 : 0) == pre_w,
		"remove: multiplicity of every record w changes by -[w==r and removed]");
	VASSERT(post_total + (rc == PFX_SUCCESS ? 1 : 0) == pre_total, "remove: total number of records");
	VASSERT(tl_sinv(&S1, TE), "remove: Inv preserved");
#endif
#ifdef ASSERT_C09
	VASSERT(cb_total == (rc == PFX_SUCCESS ? 1u : 0u), "C09 remove: exactly one callback iff the table changed");
	VASSERT(cb_w_removed == ((rc == PFX_SUCCESS && w_is_r) ? 1u : 0u), "C09 remove: callback reports exactly the removed record");
	VASSERT(cb_w_added == 0, "C09 remove: no addition reported");
#endif
#else
	VASSERT(rc == PFX_SUCCESS || rc == PFX_RECORD_NOT_FOUND || rc == PFX_ERROR, "remove: return code");
	if (rc == PFX_ERROR) {
		VASSERT(post_w == pre_w, "C18 remove: failed remove has no effect on any record");
		VASSERT(cb_total == 0, "C18 remove: failed remove reports no change");
	} else {
		VASSERT(post_w + ((rc == PFX_SUCCESS && w_is_r) ? 1 : 0) == pre_w, "C18 remove: set semantics when no error is reported");
	}
	VASSERT(tl_sinv(&S1, TE), "C18 remove: Inv preserved under allocation failure");
#endif
	VWITNESS("remove end");
}

void harness_src_remove(void)
{
	setup();
	const struct rtr_socket *s = tl_nd_socket("src");
	struct pfx_record w = nd_any_record();
	unsigned int pre_w = tl_scount(&S0, &w);

	tl_cb_reset(&w);
	int rc = pfx_table_src_remove(&T, s);
	hv_restore();
	tl_snapshot(&T, &S1);
	unsigned int post_w = tl_scount(&S1, &w);

#ifndef ALLOC_FAIL
#ifdef ASSERT_C02
	VASSERT(rc == PFX_SUCCESS, "src_remove: succeeds");
	VASSERT(post_w == (w.socket == s ? 0 : pre_w), "src_remove: deletes exactly the records of that source");
	VASSERT(tl_sinv(&S1, TE), "src_remove: Inv preserved");
#endif
#ifdef ASSERT_C09
	VASSERT(cb_w_removed == (w.socket == s ? pre_w : 0), "C09 src_remove: one removal callback per deleted record, none for others");
	VASSERT(cb_w_added == 0, "C09 src_remove: no addition reported");
#endif
#else
	VASSERT(rc == PFX_SUCCESS || rc == PFX_ERROR, "src_remove: return code");
	if (rc == PFX_SUCCESS)
		VASSERT(post_w == (w.socket == s ? 0 : pre_w), "C18 src_remove: set semantics when no error is reported");
	else
		VASSERT(post_w == pre_w, "C18 src_remove: a failed removal-by-source has no partial effect");
	VASSERT(w.socket == s || post_w == pre_w, "C18 src_remove: other sources untouched even on failure");
	VASSERT(cb_w_removed == pre_w - post_w, "C18 src_remove: callbacks match what was removed");
	VASSERT(tl_sinv(&S1, TE), "C18 src_remove: Inv preserved under allocation failure");
#endif
	VWITNESS("src_remove end");
}

/* enumeration */
static struct pfx_record fe_w;
static unsigned int fe_w_seen, fe_total;
static bool fe_bad_family;
static enum lrtr_ip_version fe_family;

static void fe_cb(const struct pfx_record *rec, void *data)
{
	VASSERT(data == &fe_w, "for_each: user pointer passed through");
	fe_total++;
	if (rec->prefix.ver != fe_family)
		fe_bad_family = true;
	if (tl_rec_eq(rec, &fe_w))
		fe_w_seen++;
}

void harness_for_each(void)
{
	setup();
	fe_w = nd_any_record();
	unsigned int pre_w = tl_scount(&S0, &fe_w);
	unsigned int tot4 = tl_ftotal(&S0.v4), tot6 = tl_ftotal(&S0.v6);

	fe_family = LRTR_IPV4;
	fe_w_seen = fe_total = 0;
	pfx_table_for_each_ipv4_record(&T, fe_cb, &fe_w);
	VASSERT(fe_total == tot4, "for_each_ipv4: yields as many records as stored");
	VASSERT(fe_w_seen == (fe_w.prefix.ver == LRTR_IPV4 ? pre_w : 0), "for_each_ipv4: every stored record exactly once, fields intact");
	VASSERT(!fe_bad_family, "for_each_ipv4: only IPv4 records");

	fe_family = LRTR_IPV6;
	fe_w_seen = fe_total = 0;
	pfx_table_for_each_ipv6_record(&T, fe_cb, &fe_w);
	VASSERT(fe_total == tot6, "for_each_ipv6: yields as many records as stored");
	VASSERT(fe_w_seen == (fe_w.prefix.ver == LRTR_IPV6 ? pre_w : 0), "for_each_ipv6: every stored record exactly once, fields intact");
	VASSERT(!fe_bad_family, "for_each_ipv6: only IPv6 records");
#ifdef VL_HAVOC
	VASSERT(vl_rd_sections[vl_slot(&T.lock)] <= 2 && vl_wr_sections[vl_slot(&T.lock)] == 0 && hv_unlocked_root_changes == 0,
		"C16 for_each: each enumeration is one read section and does not modify the table");
#endif
	hv_restore();
	tl_snapshot(&T, &S1);
	VASSERT(tl_scount(&S1, &fe_w) == pre_w && tl_stotal(&S1) == tot4 + tot6, "for_each: table unchanged");
	VWITNESS("for_each end");
}
