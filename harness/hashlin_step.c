/*
 * C10 (resize steps): ONE operation of the REAL tommy_hashlin (the hash container below the
 * router-key table) from an ARBITRARY valid container state -- an inductive step, so the claim
 * covers histories of any length, in particular the ones that cross grow steps, partial shrinks and
 * shrink->grow / grow->shrink reversals, which need dozens of operations to reach from the empty
 * table (the spki_ops.c histories cannot get there).
 *
 * Pre-state (template, built here, not by a history):
 *   bucket_bit = HL_B (concrete per job), state = HL_STATE (0 stable, 1 grow, 2 shrink; concrete per
 *   job), split symbolic in the range the representation invariant allows, count symbolic,
 *   up to HL_N objects with free 32-bit hashes, each linked into the bucket the SPECIFICATION
 *   (ref_pos below, written independently of the low_mask/low_max fields) assigns to its hash.
 *   The not-yet-split high buckets hold garbage, as after the real malloc() of a new segment.
 * Step: HL_OP = 1 tommy_hashlin_insert, 2 tommy_hashlin_remove (hash + compare), 3 remove_existing,
 *       0 = base case: the real tommy_hashlin_init() establishes the invariant.
 * Post: the representation invariant holds again (induction), count moved by exactly one, every object
 *   that should be stored is linked exactly once, in the bucket the specification assigns to its hash
 *   in the NEW state; nothing else is linked; bucket lists are well-formed; the real bucket_ref /
 *   search agree with the specification for an arbitrary query.
 */
#include "verif.h"

#include "third-party/tommyds/tommyhashlin.h"
#include "third-party/tommyds/tommylist.h"

#ifndef HL_B
#define HL_B 2
#endif
#ifndef HL_STATE
#define HL_STATE 0
#endif
#ifndef HL_OP
#define HL_OP 1
#endif
#ifndef HL_N
#define HL_N 3
#endif
#define HL_BMAX (HL_B + 1)

#define VM_MALLOC_CLASSES                                                                                  \
	X(tommy_hashlin_node *, 2) X(tommy_hashlin_node *, 4) X(tommy_hashlin_node *, 8) X(tommy_hashlin_node *, 16) \
	X(tommy_hashlin_node *, 32) X(tommy_hashlin_node *, 64) X(tommy_hashlin_node *, 128)
#define VM_REALLOC_CLASSES X(tommy_hashlin_node *, 2)
#define VM_DIRECT
#include "alloc_model.h"

void *lrtr_calloc(size_t nmemb, size_t size)
{
	size_t bytes = nmemb * size;
	void *p = vm_malloc(bytes);

	if (!p)
		return p;
	tommy_hashlin_node **b = p;

	for (size_t i = 0; i < 128; i++) {
		if (i * sizeof(*b) >= bytes)
			break;
		b[i] = NULL;
	}
	return p;
}

/* every object is its own C object (writes through tommy_node pointers into one array of objects
 * are encoded by CBMC as byte updates of the whole array: measured 1.3 M variables for ONE object)
 */
struct obj {
	tommy_node node;
	uint32_t id;
};
static struct obj OBJ0, OBJ1, OBJ2, OBJ3, OBJ4;
static struct obj *const OP[5] = {&OBJ0, &OBJ1, &OBJ2, &OBJ3, &OBJ4};
#define O(i) (*OP[i])
static bool stored[HL_N + 1];
static tommy_hashlin H;

/* ---- specification ---- */
static tommy_count_t ref_pos(const tommy_hashlin *h, uint32_t key)
{
	tommy_count_t max = (tommy_count_t)1 << h->bucket_bit;

	if (h->state == 0)
		return key & (max - 1);
	tommy_count_t p = key & (max / 2 - 1);

	return p < h->split ? (key & (max - 1)) : p;
}

static tommy_count_t valid_buckets(const tommy_hashlin *h)
{
	tommy_count_t max = (tommy_count_t)1 << h->bucket_bit;

	return h->state == 0 ? max : max / 2 + h->split;
}

static bool hl_inv(const tommy_hashlin *h)
{
	if (h->bucket_bit < TOMMY_HASHLIN_BIT || h->bucket_bit > HL_BMAX)
		return false;
	tommy_count_t max = (tommy_count_t)1 << h->bucket_bit;

	if (h->bucket_max != max || h->bucket_mask != max - 1)
		return false;
	if (h->state == 0)
		return h->low_max == max && h->low_mask == max - 1 && h->split == 0;
	if (h->state != 1 && h->state != 2)
		return false;
	/* a resize is in progress: the table is one step above the minimum, the lower half is the
	 * addressing base, and at least one / not yet all buckets are split
	 */
	return h->bucket_bit > TOMMY_HASHLIN_BIT && h->low_max == max / 2 && h->low_mask == max / 2 - 1 && h->split >= 1 &&
	       h->split <= max / 2 - 1;
}

/* segments are allocated as the real grow step does: bucket[i] points 2^i entries before its block */
static bool hl_segments_ok(const tommy_hashlin *h)
{
	for (unsigned int i = 1; i < TOMMY_HASHLIN_BIT; i++)
		if (h->bucket[i] != h->bucket[0])
			return false;
	return true;
}

/* one pass over all valid buckets: list well-formedness, who is linked where.  One loop per function so
 * that the driver can give each its own exact unwinding bound by function name.
 */
static unsigned int seen[HL_N + 1];

static int which_obj(const tommy_hashlin_node *n)
{
	int idx = -1;

	for (unsigned int i = 0; i <= HL_N; i++)
		if (n == &OP[i]->node)
			idx = (int)i;
	return idx;
}

static unsigned int scan_bucket(tommy_hashlin *h, tommy_count_t p)
{
	unsigned int c = 0;
	tommy_hashlin_node *head = *tommy_hashlin_pos(h, p);
	tommy_hashlin_node *n = head, *last = NULL;

	for (unsigned int k = 0; k <= HL_N + 1; k++) {
		if (!n)
			break;
		c++;
		int idx = which_obj(n);

		VASSERT(idx >= 0, "C10 hashlin: nothing but the harness's objects is linked");
		if (idx < 0)
			break;
		seen[idx]++;
		VASSERT(ref_pos(h, n->key) == p, "C10 hashlin: every linked object sits in the bucket its hash addresses in the new state");
		VASSERT(n->data == OP[idx], "C10 hashlin: node data intact");
		if (n->next)
			VASSERT(n->next->prev == n, "C10 hashlin: bucket list is doubly linked");
		last = n;
		n = n->next;
	}
	VASSERT(n == NULL, "C10 hashlin: bucket list is finite (no cycle, no stray node)");
	if (head)
		VASSERT(head->prev == last, "C10 hashlin: head of a bucket list points back at its tail");
	return c;
}

static unsigned int scan(tommy_hashlin *h)
{
	unsigned int c = 0;
	tommy_count_t nb = valid_buckets(h);

	for (tommy_count_t p = 0; p < ((tommy_count_t)1 << HL_BMAX); p++) {
		if (p >= nb)
			break;
		c += scan_bucket(h, p);
	}
	return c;
}

static int cmp_id(const void *arg, const void *o)
{
	return *(const uint32_t *)arg != ((const struct obj *)o)->id;
}

static void check_post(unsigned int want_count)
{
	VASSERT(hl_inv(&H), "C10 hashlin: the representation invariant holds after the operation (induction step)");
	VASSERT(hl_segments_ok(&H), "C10 hashlin: segment table intact");
	VASSERT(H.count == want_count, "C10 hashlin: count moved by exactly the operation");
	unsigned int n_stored = 0;

	for (unsigned int i = 0; i <= HL_N; i++)
		seen[i] = 0;
	unsigned int linked = scan(&H);

	for (unsigned int i = 0; i <= HL_N; i++) {
		if (stored[i])
			n_stored++;
		VASSERT(seen[i] == (stored[i] ? 1u : 0u), "C10 hashlin: every stored object is linked exactly once, a removed / never inserted one not at all");
	}
	VASSERT(linked == n_stored, "C10 hashlin: nothing but the stored objects is linked");

	/* the real addressing and search agree with the specification for an arbitrary query */
	uint32_t q = ND(uint32_t, "q.hash");
	uint32_t qid = ND(uint32_t, "q.id");

	VASSERT(tommy_hashlin_bucket_ref(&H, q) == tommy_hashlin_pos(&H, ref_pos(&H, q)),
		"C10 hashlin: bucket_ref addresses the bucket of the specification");
	struct obj *want = NULL;

	for (unsigned int i = 0; i <= HL_N; i++)
		if (stored[i] && O(i).node.key == q && O(i).id == qid)
			want = OP[i];
	VASSERT(tommy_hashlin_search(&H, cmp_id, &qid, q) == want, "C10 hashlin: search finds exactly the stored object with that hash and identity");
}

#if HL_OP == 0
void harness(void)
{
	tommy_hashlin_init(&H);
	VASSERT(hl_inv(&H) && H.state == 0 && H.bucket_bit == TOMMY_HASHLIN_BIT, "C10 hashlin: init establishes the invariant (base case)");
	VASSERT(H.count == 0, "C10 hashlin: init: empty");
	for (unsigned int i = 0; i <= HL_N; i++)
		stored[i] = false;
	check_post(0);
	tommy_hashlin_done(&H);
	VASSERT(vm_live == 0, "C18 hashlin: done returns the bucket array");
	VWITNESS("hashlin init end");
}
#else
void harness(void)
{
	/* ---- template ---- */
	H.bucket_bit = HL_B;
	H.bucket_max = (tommy_count_t)1 << HL_B;
	H.bucket_mask = H.bucket_max - 1;
	H.state = HL_STATE;
	tommy_hashlin_node **seg0 = lrtr_malloc(sizeof(tommy_hashlin_node *) << TOMMY_HASHLIN_BIT);

	for (unsigned int i = 0; i < TOMMY_HASHLIN_BIT; i++)
		H.bucket[i] = seg0;
	for (unsigned int i = TOMMY_HASHLIN_BIT; i < HL_B; i++) {
		tommy_hashlin_node **seg = lrtr_malloc(sizeof(tommy_hashlin_node *) << i);

		H.bucket[i] = &seg[-(tommy_ptrdiff_t)((tommy_count_t)1 << i)];
	}
	if (HL_STATE == 0) {
		H.low_max = H.bucket_max;
		H.low_mask = H.bucket_mask;
		H.split = 0;
	} else {
		H.low_max = H.bucket_max / 2;
		H.low_mask = H.bucket_mask / 2;
#ifdef HL_SPLIT
		H.split = HL_SPLIT; /* concrete per job: a symbolic split position makes every bucket address symbolic (12x cost) */
#else
		H.split = ND(uint32_t, "split");
#endif
	}
	H.count = ND(uint32_t, "count");
	VASSUME(hl_inv(&H));
	VASSUME(H.count < (1u << 28)); /* 2*count, 8*count do not wrap */
#ifdef HL_CLO
	/* the driver splits the count range into the classes that give the resize loop a fixed trip count;
	 * the classes of one (HL_B, HL_STATE, HL_OP) cover [0, 2^28)
	 */
	VASSUME(H.count >= HL_CLO && H.count <= HL_CHI);
#endif

	tommy_count_t nb = valid_buckets(&H);

	for (tommy_count_t p = 0; p < ((tommy_count_t)1 << HL_B); p++) {
		if (p >= nb)
			break;
		*tommy_hashlin_pos(&H, p) = NULL;
	}
	unsigned int n = 0;

	for (unsigned int i = 0; i < HL_N; i++) {
		stored[i] = ND_BOOL("obj.stored");
		O(i).id = ND(uint32_t, "obj.id");
		for (unsigned int j = 0; j < i; j++)
			VASSUME(O(i).id != O(j).id);
		if (stored[i]) {
			uint32_t key = ND(uint32_t, "obj.hash");

			tommy_count_t at = ref_pos(&H, key);

			/* explicit case split: every bucket pointer is concrete in its branch */
			for (tommy_count_t p = 0; p < ((tommy_count_t)1 << HL_B); p++)
				if (p == at)
					tommy_list_insert_tail(tommy_hashlin_pos(&H, p), &OP[i]->node, OP[i]);
			O(i).node.key = key;
			n++;
		}
	}
	stored[HL_N] = false;
	O(HL_N).id = ND(uint32_t, "new.id");
	for (unsigned int j = 0; j < HL_N; j++)
		VASSUME(O(HL_N).id != O(j).id);
	VASSUME(H.count >= n);
	const unsigned int count0 = H.count;
	const int live0 = vm_live;
#ifdef ALLOC_FAIL
	/* C18: the container's own allocation (the new segment of a starting grow step) may fail */
	vm_requests = 0;
	vm_fail_at = ND_BOOL("alloc.fail") ? 1 : 0;
#endif

	/* ---- one real operation ---- */
#if HL_OP == 1
	uint32_t key = ND(uint32_t, "new.hash");

	tommy_hashlin_insert(&H, &OP[HL_N]->node, OP[HL_N], key);
	stored[HL_N] = true;
	VASSERT(O(HL_N).node.key == key, "C10 hashlin: insert records the hash in the node");
	check_post(count0 + 1);
	VASSERT(H.bucket_bit >= HL_B, "hashlin: insert never shrinks");
#elif HL_OP == 2
	uint32_t key = ND(uint32_t, "rm.hash");
	uint32_t id = ND(uint32_t, "rm.id");
	int hit = -1;

	for (unsigned int i = 0; i < HL_N; i++)
		if (stored[i] && O(i).node.key == key && O(i).id == id)
			hit = (int)i;
	void *r = tommy_hashlin_remove(&H, cmp_id, &id, key);

	if (hit >= 0) {
		VASSERT(r == OP[hit], "C10 hashlin: remove returns the stored object with that hash and identity");
		stored[hit] = false;
		check_post(count0 - 1);
	} else {
		VASSERT(r == NULL, "C10 hashlin: removing an unknown object reports it");
		VASSERT(H.state == HL_STATE && H.bucket_bit == HL_B, "C10 hashlin: an unknown removal changes nothing");
		check_post(count0);
	}
	VASSERT(H.bucket_bit <= HL_B, "hashlin: remove never grows");
#elif HL_OP == 3
	unsigned int which = ND(uint8_t, "rm.which");

	VASSUME(which < HL_N && stored[which]);
	void *r = tommy_hashlin_remove_existing(&H, &OP[which]->node);

	VASSERT(r == OP[which], "C10 hashlin: remove_existing returns the object");
	stored[which] = false;
	check_post(count0 - 1);
#endif
	/* one segment is allocated by a grow step that starts, one freed by a shrink that completes */
	VASSERT(vm_live == live0 + ((int)H.bucket_bit - HL_B), "C18 hashlin: segments are allocated / returned exactly with the table size");
	VWITNESS("hashlin step end");
}
#endif
