/*
 * C09 (and C18 ledger): pfx_table_notify_diff() on two ARBITRARY Inv-valid tables (the net
 * difference for one cache is reported, nothing else), and pfx_table_free() (every record is
 * reported removed exactly once, every block returned to the configured allocator).
 */
#define VM_LEDGER_COUNT_ONLY
#include "trie_lib.h"

#define FAMV (FAM == 4 ? LRTR_IPV4 : LRTR_IPV6)
#define OTHV (FAM == 4 ? LRTR_IPV6 : LRTR_IPV4)

static struct pfx_table NEW, OLD;
static struct tl_snap SN0, SO0, SN1;

static void mk_table(struct pfx_table *t, pfx_update_fp fp)
{
	pfx_table_init(t, fp);
	tl_shape_on = true;
	struct trie_node *a = tl_template(FAMV, TD, TE);

	tl_shape_on = false;
#ifdef TL_OTHER_EMPTY
	struct trie_node *b = NULL; /* the other address family is empty in this job */
#else
	struct trie_node *b = tl_template(OTHV, 0, 1);
#endif

	if (FAM == 4) {
		t->ipv4 = a;
		t->ipv6 = b;
	} else {
		t->ipv6 = a;
		t->ipv4 = b;
	}
}

void harness_notify_diff(void)
{
	vm_install();
	mk_table(&NEW, tl_update_cb);
#if defined(TL_SHAPE) && defined(TL_SHAPE_OLD)
	tl_shape_mask = TL_SHAPE_OLD; /* the old table has its own fixed shape (e.g. empty) */
#endif
	mk_table(&OLD, tl_update_cb);
	tl_snapshot(&NEW, &SN0);
	tl_snapshot(&OLD, &SO0);
	VASSUME(tl_sinv(&SN0, TE) && tl_sinv(&SO0, TE));
	const struct rtr_socket *s = tl_nd_socket("src");
	struct pfx_record w = tl_nd_record(ND_BOOL("w.otherfam") ? OTHV : FAMV);
	unsigned int in_new = tl_scount(&SN0, &w), in_old = tl_scount(&SO0, &w);

	tl_cb_reset(&w);
	cb_table_expected = &NEW;
	pfx_table_notify_diff(&NEW, &OLD, s);

	VASSERT(cb_w_added == ((in_new && !in_old && w.socket == s) ? 1u : 0u),
		"C09 notify_diff: 'added' exactly for records of the cache that are new");
	VASSERT(cb_w_removed == ((in_old && !in_new && w.socket == s) ? 1u : 0u),
		"C09 notify_diff: 'removed' exactly for records of the cache that disappeared");
	VASSERT(cb_wrong_table == 0, "C09 notify_diff: callbacks are issued for the new (live) table");
	VASSERT(OLD.update_fp == tl_update_cb && NEW.update_fp == tl_update_cb, "notify_diff: callbacks restored");
	tl_snapshot(&NEW, &SN1);
	VASSERT(tl_scount(&SN1, &w) == in_new && tl_stotal(&SN1) == tl_stotal(&SN0), "notify_diff: the new table is not modified");
	VWITNESS("notify_diff end");
}

void harness_free(void)
{
	vm_install();
	vm_live = 0;
	mk_table(&NEW, tl_update_cb);
	tl_snapshot(&NEW, &SN0);
	VASSUME(tl_sinv(&SN0, TE));
	struct pfx_record w = tl_nd_record(ND_BOOL("w.otherfam") ? OTHV : FAMV);
	unsigned int pre_w = tl_scount(&SN0, &w), pre_total = tl_stotal(&SN0);

	tl_cb_reset(&w);
	VASSERT(vm_live > 0 || pre_total == 0, "ledger counts the template's blocks");
	pfx_table_free(&NEW);
	VASSERT(cb_w_removed == pre_w && cb_w_added == 0, "C09 free: every stored record is reported removed exactly once");
	VASSERT(cb_total == pre_total, "C09 free: as many callbacks as records");
	VASSERT(NEW.ipv4 == NULL && NEW.ipv6 == NULL, "free: table empty afterwards");
	VASSERT(vm_live == 0, "C18 free: every block is returned to the configured allocator");
	VWITNESS("free end");
}

/* C06 units on the real containers: the shadow copy holds exactly the other caches' records, and the
 * swap exchanges both roots inside one write section of each table
 */
void harness_copy_swap(void)
{
	vm_install();
	mk_table(&OLD, NULL);
	pfx_table_init(&NEW, NULL);
	tl_snapshot(&OLD, &SO0);
	VASSUME(tl_sinv(&SO0, TE));
	struct rtr_socket *s = (struct rtr_socket *)tl_nd_socket("src");
	struct pfx_record w = tl_nd_record(ND_BOOL("w.otherfam") ? OTHV : FAMV);
	unsigned int in_old = tl_scount(&SO0, &w);
	int rc = pfx_table_copy_except_socket(&OLD, &NEW, s);

	VASSERT(rc == PFX_SUCCESS, "copy_except_socket: succeeds");
	tl_snapshot(&NEW, &SN0);
	VASSERT(tl_scount(&SN0, &w) == (w.socket == s ? 0 : in_old), "C06 copy: the shadow table holds exactly the other caches' records");
	VASSERT(tl_sinv(&SN0, TE), "C06 copy: the shadow table is a valid table");
	tl_snapshot(&OLD, &SN1);
	VASSERT(tl_scount(&SN1, &w) == in_old && tl_stotal(&SN1) == tl_stotal(&SO0), "C06 copy: the live table is not modified");

	struct trie_node *o4 = OLD.ipv4, *o6 = OLD.ipv6, *n4 = NEW.ipv4, *n6 = NEW.ipv6;
#ifndef VERIF_NATIVE
	unsigned int wo = vl_wr_sections[vl_slot(&OLD.lock)], wn = vl_wr_sections[vl_slot(&NEW.lock)];
#endif

	pfx_table_swap(&OLD, &NEW);
	VASSERT(OLD.ipv4 == n4 && OLD.ipv6 == n6 && NEW.ipv4 == o4 && NEW.ipv6 == o6, "C06 swap: both roots of both tables are exchanged");
#ifndef VERIF_NATIVE /* the lock model's ghost counters exist only under CBMC; the native replay uses real rwlocks */
	VASSERT(vl_wr_sections[vl_slot(&OLD.lock)] == wo + 1 && vl_wr_sections[vl_slot(&NEW.lock)] == wn + 1,
		"C06 swap: one write section on each table covers the exchange");
	VASSERT(!vl_held(&OLD.lock) && !vl_held(&NEW.lock), "swap: locks released");
#endif
	VWITNESS("copy_swap end");
}
