/*
 * k-step harness of the REAL state machine loop rtr_fsm_start() (rtr.c) with the real query
 * senders of packets.c, started in an ARBITRARY socket state (hook RTRLIB_VERIF_FSM_KEEP_STATE)
 * under the socket invariant SInv, for BUDGET environment interactions.
 *
 * Environment (contract stubs, each decrementing the budget; at 0 the socket is shut down, which
 * ends the loop through pthread_exit):
 *   rtr_sync           -> stub_rtr_sync: the post-conditions proved on the real rtr_sync in
 *                         harness/rtr_sync_unit.c (success / every failure class)
 *   rtr_wait_for_sync  -> stub_wait: proved in harness/rtr_wait_unit.c
 *   tr_open/tr_close, sleep, clock, pfx/spki_table_src_remove (ghost "cache has records")
 *   tr_send_all        -> wire monitor decoding every query
 *
 * Monitors: C05 (queries carry last completed session/serial), C07 (expiry / stop), C13(d)
 * (version monotone, per-connection first-PDU flag), C08-L1 (no reconnect cycle without time
 * passing), C17(c) (Serial Query follows a notify / refresh timeout).
 */
#include "verif.h"

#include "rtrlib/rtr/packets.c"

/* calls made by rtr.c go to the contract stubs (a #define instead of goto-instrument --replace-calls
 * so that counterexamples can be replayed natively with the same harness)
 */
int stub_rtr_sync(struct rtr_socket *s);
int stub_wait(struct rtr_socket *s);
#define rtr_sync stub_rtr_sync
#define rtr_wait_for_sync stub_wait
#include "rtrlib/rtr/rtr.c"
#undef rtr_sync
#undef rtr_wait_for_sync

#include "libc_model.h"
#define STREAM_LEN 8
#define SENT_MAX 16
#ifndef BUDGET
#define BUDGET 6
#endif
#define MAX_SENDS 1

static void on_query(const uint8_t *b, unsigned int len);
#define WIRE_ON_SEND(bytes, len) on_query(bytes, len)
#include "wire.h"

static struct rtr_socket S;
static struct tr_socket TR;
static struct pfx_table PFX;
static struct spki_table SPKI;

/* ---- ghost state ---- */
static bool g_has;            /* a completed synchronisation's session is still valid */
static uint32_t g_sess, g_sn; /* ... and these are its session id and serial */
static bool g_has_pfx, g_has_spki; /* the tables may hold records of this cache */
static time_t g_t_success;    /* time of the last successful synchronisation */
static time_t env_now;
static time_t env_last_read;  /* value the code obtained from the clock last */
static bool env_last_read_failed;
static int budget;
static unsigned int n_open;
static bool slept_since_open;
static unsigned int version_at_last_open;
static bool expect_serial_query; /* C17c */
static bool g_sinv_pending;
static unsigned int v_max;

/* SInv: the inductive invariant of the loop.  Assumed for the arbitrary start state, asserted again at
 * every environment interaction (so the k-step result extends to runs of any length).
 */
static bool sinv(void)
{
	bool noinc = S.state == RTR_ERROR_NO_DATA_AVAIL || S.state == RTR_ERROR_NO_INCR_UPDATE_AVAIL;

	if ((S.state == RTR_ESTABLISHED) && S.request_session_id)
		return false;
	if (S.state == RTR_RESET && !S.request_session_id)
		return false;
	if (S.is_resetting && !(S.request_session_id && S.last_update == 0))
		return false;
	if (!S.request_session_id && S.last_update == 0)
		return false;
	if ((g_has_pfx || g_has_spki) && (S.last_update == 0 || S.last_update != g_t_success))
		return false;
	if (!noinc && g_has != !S.request_session_id)
		return false;
	if (noinc && g_has)
		return false;
	if (g_has && !S.request_session_id && (g_sess != S.session_id || g_sn != S.serial_number))
		return false;
	return true;
}

static bool reached_established;
static time_t t_start, t_established;
static uint8_t last_query_type;

static unsigned int clock_reads_since_step; /* clock readings since the last other environment interaction */

static void spend(void)
{
	clock_reads_since_step = 0;
	if (S.state != RTR_SHUTDOWN)
		VASSERT(sinv(), "fsm: socket invariant SInv is re-established at every step (inductive)");
	if (S.state == RTR_ESTABLISHED && !reached_established) {
		reached_established = true;
		t_established = env_now;
	}
	if (budget > 0)
		budget--;
#ifdef GOOD_ENV
	if (budget == 0) {
		VASSERT(reached_established, "C08 (L3): once the cache answers correctly the socket reaches ESTABLISHED within the step bound");
		if (reached_established)
			VASSERT((int64_t)t_established - (int64_t)t_start <= 2 * (int64_t)S.retry_interval,
				"C08 (L3): ... within two retry intervals of protocol time");
	}
#endif
	if (budget == 0)
		S.state = RTR_SHUTDOWN;
}

/* ---- environment ---- */
int lrtr_get_monotonic_time(time_t *seconds)
{
	uint32_t adv = ND(uint32_t, "clock.advance");

	VASSUME(adv <= 400000);
#ifdef GOOD_ENV
	VASSUME(adv == 0);
#endif
	env_now += adv;
	clock_reads_since_step++;
	env_last_read_failed = false;
#ifdef CLOCK_MAY_FAIL
	if (ND_BOOL("clock.fail")) {
		env_last_read_failed = true;
		return -1;
	}
#endif
	env_last_read = env_now;
	*seconds = env_now;
	return 0;
}

unsigned int sleep(unsigned int seconds)
{
	uint32_t extra = ND(uint32_t, "sleep.extra");

	VASSUME(extra <= 400000);
#ifdef GOOD_ENV
	VASSUME(extra == 0);
#endif
	env_now += (time_t)seconds + extra;
	slept_since_open = true;
	VASSERT(!expect_serial_query, "C17 fsm: a Serial Query follows a Serial Notify / refresh timeout immediately");
	spend();
	return 0;
}

int pthread_setcancelstate(int state, int *oldstate)
{
	(void)state;
	if (oldstate)
		*oldstate = 0;
	return 0;
}

void pthread_exit(void *retval)
{
	(void)retval;
	VWITNESS("fsm loop left through RTR_SHUTDOWN");
	VASSUME(0);
	while (1)
		;
}

int pfx_table_src_remove(struct pfx_table *t, const struct rtr_socket *s)
{
	VASSERT(t == &PFX && s == &S, "fsm: purges its own records from its own table");
	g_has_pfx = false;
	g_has = false; /* the cache's data is gone: the conversation must restart with a Reset Query */
	return PFX_SUCCESS;
}

int spki_table_src_remove(struct spki_table *t, const struct rtr_socket *s)
{
	VASSERT(t == &SPKI && s == &S, "fsm: purges its own router keys from its own table");
	g_has_spki = false;
	g_has = false;
	return SPKI_SUCCESS;
}

int tr_open(struct tr_socket *t)
{
	(void)t;
	n_open++;
#ifdef ASSERT_C07
	/* C07: judged on the clock reading the code itself obtained in its purge check */
	if ((g_has_pfx || g_has_spki)) {
		VASSERT(clock_reads_since_step > 0,
			"C07 fsm: the age of the cache's records is evaluated on every connection attempt while records exist");
		VASSERT(S.last_update != 0, "C07 fsm: records of the cache exist only while last_update is set");
		VASSERT(S.last_update == g_t_success, "C07 fsm: last_update is the time of the last successful synchronisation");
		VASSERT(env_last_read_failed || (int64_t)env_last_read - (int64_t)g_t_success <= (int64_t)S.expire_interval,
			"C07 fsm: on (re)connect, records older than the expire interval have been removed");
	}
	if (!g_has_pfx && !g_has_spki && S.last_update == 0)
		VASSERT(S.request_session_id, "C07 fsm: after expiry the conversation restarts with a Reset Query");
#endif
#ifdef ASSERT_C13
	VASSERT(!S.has_received_pdus, "C13 fsm: first-PDU flag cleared on every (re)connect");
#endif
#ifdef ASSERT_C08
	if (n_open >= 2)
		VASSERT(slept_since_open || S.version < version_at_last_open,
			"C08 fsm: no reconnect cycle without time passing (except one downgrade per version)");
#endif
	VASSERT(!expect_serial_query, "C17 fsm: a Serial Query follows a Serial Notify / refresh timeout immediately");
	slept_since_open = false;
	version_at_last_open = S.version;
	spend();
#ifdef GOOD_ENV
	return TR_SUCCESS;
#endif
	return ND_BOOL("open.fails") ? TR_ERROR : TR_SUCCESS;
}

void tr_close(struct tr_socket *t)
{
	(void)t;
	spend();
}

/* every byte sequence handed to the transport by the state machine is a query */
static void on_query(const uint8_t *b, unsigned int len)
{
	VASSERT(b[0] == S.version, "C14 fsm: query carries the negotiated version");
	VASSERT(b[1] == SERIAL_QUERY || b[1] == RESET_QUERY, "C14 fsm: only queries are sent by the state machine");
	VASSERT(w_be32(b + 4) == len, "C14 fsm: length field equals bytes sent");
	if (b[1] == SERIAL_QUERY)
		VASSERT(len == 12, "C14 fsm: Serial Query has 12 bytes");
	else
		VASSERT(len == 8 && b[2] == 0 && b[3] == 0, "C14 fsm: Reset Query has 8 bytes and a zero reserved field");
#ifdef ASSERT_C05
	if (g_has) {
		VASSERT(b[1] == SERIAL_QUERY, "C05 fsm: with a completed synchronisation every query is a Serial Query");
		if (b[1] == SERIAL_QUERY) {
			VASSERT(w_be16(b + 2) == (uint16_t)g_sess, "C05 fsm: Serial Query carries the session of the last completed synchronisation");
			VASSERT(w_be32(b + 8) == g_sn, "C05 fsm: Serial Query carries the serial of the last completed synchronisation");
		}
	} else {
		VASSERT(b[1] == RESET_QUERY, "C05 fsm: without a valid completed synchronisation the query is a Reset Query");
	}
#endif
	last_query_type = b[1];
	if (expect_serial_query) {
		VASSERT(b[1] == SERIAL_QUERY, "C17 fsm: Serial Notify / refresh timeout is answered with a Serial Query");
		expect_serial_query = false;
	}
	w_nsent = 0; /* keep only the latest */
	spend();
}

/* contract of rtr_sync (see rtr_sync_unit.c for the proof obligations on the real function) */
int stub_rtr_sync(struct rtr_socket *s)
{
	VASSERT(!expect_serial_query, "C17 fsm: a Serial Query follows a Serial Notify / refresh timeout immediately");
	spend();
	if (s->state == RTR_SHUTDOWN)
		return RTR_ERROR;
	uint32_t adv = ND(uint32_t, "sync.takes");

	VASSUME(adv <= 400000);
	env_now += adv;
	/* first PDU of the connection may lower the version */
	bool got_pdu = ND_BOOL("sync.got_pdu");

	if (got_pdu) {
		if (!s->has_received_pdus && s->version == 1 && ND_BOOL("sync.live_downgrade"))
			s->version = 0;
		s->has_received_pdus = true;
	}
	uint8_t out = ND(uint8_t, "sync.outcome");

	VASSUME(out <= 7);
#ifdef GOOD_ENV
	/* a cache that answers correctly: data for a Reset Query; data or Cache Reset for a Serial Query */
	VASSUME(got_pdu && adv == 0 && (out == 0 || (out == 4 && last_query_type == SERIAL_QUERY)));
#endif
	if (out == 0) { /* success: Cache Response (session) ... End of Data (serial) */
		VASSUME(got_pdu);
		if (s->request_session_id)
			s->session_id = ND(uint16_t, "sync.session");
		s->serial_number = ND(uint32_t, "sync.serial");
		s->request_session_id = false;
		s->is_resetting = false;
		env_last_read = env_now;
		s->last_update = env_now;
		VASSUME(env_now != 0);
		g_t_success = env_now;
		g_has = true;
		g_sess = s->session_id;
		g_sn = s->serial_number;
		g_has_pfx = ND_BOOL("sync.has_pfx");
		g_has_spki = ND_BOOL("sync.has_spki");
#ifdef EOD_INTERVALS
		if (s->version == 1 && s->iv_mode != RTR_INTERVAL_MODE_IGNORE_ANY) {
			s->refresh_interval = ND(uint32_t, "sync.refresh");
			s->retry_interval = ND(uint32_t, "sync.retry");
			s->expire_interval = ND(uint32_t, "sync.expire");
			if (s->iv_mode != RTR_INTERVAL_MODE_ACCEPT_ANY)
				VASSUME(s->refresh_interval >= 1 && s->refresh_interval <= 86400 && s->retry_interval >= 1 &&
					s->retry_interval <= 7200 && s->expire_interval >= 600 && s->expire_interval <= 172800);
		}
#endif
		return RTR_SUCCESS;
	}
	/* failures: serial untouched; session only (re)written while none is established */
	if (ND_BOOL("sync.reload_flag_cleared"))
		s->is_resetting = false;
	if (s->request_session_id && ND_BOOL("sync.cr_seen"))
		s->session_id = ND(uint16_t, "sync.session");
	if (ND_BOOL("sync.purged")) {
#ifdef GOOD_ENV
		VASSUME(0);
#endif /* undo impossible: everything of this cache removed, Reset Query next */
		g_has_pfx = g_has_spki = false;
		s->request_session_id = true;
		g_has = false;
	}
	switch (out) {
	case 1:
		rtr_change_socket_state(s, RTR_ERROR_FATAL);
		break;
	case 2:
		rtr_change_socket_state(s, RTR_ERROR_TRANSPORT);
		break;
	case 3: /* Error Report: no data available */
		VASSUME(got_pdu);
		g_has = false; /* C05: a no-data error makes the next query a Reset Query */
		rtr_change_socket_state(s, RTR_ERROR_NO_DATA_AVAIL);
		break;
	case 4: /* Cache Reset */
		VASSUME(got_pdu);
		g_has = false; /* C05: a Cache Reset answer makes the next query a Reset Query */
		rtr_change_socket_state(s, RTR_ERROR_NO_INCR_UPDATE_AVAIL);
		break;
	case 5: /* version downgrade: Unsupported-Version report, or hang-up before any session */
		VASSUME(s->version > 0);
		s->version = s->version - 1;
		rtr_change_socket_state(s, RTR_FAST_RECONNECT);
		break;
	case 6: /* interrupted / refused PDU: state untouched, the loop calls rtr_sync again */
		break;
	default:
		rtr_change_socket_state(s, RTR_ERROR_FATAL);
		break;
	}
	return RTR_ERROR;
}

int stub_wait(struct rtr_socket *s)
{
	VASSERT(!expect_serial_query, "C17 fsm: a Serial Query follows a Serial Notify / refresh timeout immediately");
	spend();
	if (s->state == RTR_SHUTDOWN)
		return RTR_ERROR;
	uint32_t adv = ND(uint32_t, "wait.takes");

	VASSUME(adv <= 400000);
	env_now += adv;
	uint8_t out = ND(uint8_t, "wait.outcome");

	VASSUME(out <= 3);
#ifdef GOOD_ENV
	VASSUME(out == 0 && adv == 0);
#endif
	if (out == 0) { /* Serial Notify or refresh timer expired */
		expect_serial_query = (s->state != RTR_SHUTDOWN);
		return RTR_SUCCESS;
	}
	if (out == 1)
		rtr_change_socket_state(s, RTR_ERROR_TRANSPORT);
	else if (out == 2)
		rtr_change_socket_state(s, RTR_ERROR_FATAL);
	/* out == 3: other PDU / interruption, state untouched */
	return RTR_ERROR;
}

static void state_cb(const struct rtr_socket *s, const enum rtr_socket_state st, void *a, void *b)
{
	(void)s;
	(void)st;
	(void)a;
	(void)b;
	VASSERT(S.version <= v_max, "C13 fsm: version never increases");
	v_max = S.version;
	spend();
}

static void arbitrary_socket(void)
{
	S.tr_socket = &TR;
	S.pfx_table = &PFX;
	S.spki_table = &SPKI;
	S.connection_state_fp = state_cb;
	S.connection_state_fp_param_config = NULL;
	S.connection_state_fp_param_group = NULL;
	S.version = ND(uint8_t, "S.version");
	VASSUME(S.version <= 1);
	v_max = S.version;
	S.has_received_pdus = ND_BOOL("S.has_received");
	S.request_session_id = ND_BOOL("S.request_session_id");
	S.session_id = ND(uint16_t, "S.session");
	S.serial_number = ND(uint32_t, "S.serial");
	S.last_update = ND(uint32_t, "S.last_update");
	S.is_resetting = ND_BOOL("S.is_resetting");
	S.refresh_interval = ND(uint32_t, "S.refresh");
	S.retry_interval = ND(uint32_t, "S.retry");
	S.expire_interval = ND(uint32_t, "S.expire");
	uint8_t mode = ND(uint8_t, "S.iv_mode");

	VASSUME(mode <= RTR_INTERVAL_MODE_IGNORE_ON_FAILURE);
	S.iv_mode = (enum rtr_interval_mode)mode;
	S.thread_id = 1;
	env_now = ND(uint32_t, "clock.start");
	VASSUME(env_now >= 1);
	g_has_pfx = ND_BOOL("g.has_pfx");
	g_has_spki = ND_BOOL("g.has_spki");
	/* SInv */
	VASSUME(!S.is_resetting || (S.request_session_id && S.last_update == 0));
	VASSUME(S.request_session_id || S.last_update != 0);
	VASSUME(S.last_update <= env_now);
	VASSUME(!(g_has_pfx || g_has_spki) || S.last_update != 0);
	g_t_success = S.last_update;
	g_has = !S.request_session_id;
	g_sess = S.session_id;
	g_sn = S.serial_number;
	g_sinv_pending = true;
	w_sock = &S;
#ifdef GOOD_ENV
	w_send_may_fail = false;
#else
	w_send_may_fail = true;
#endif
	reached_established = false;
	t_start = env_now;
	n_open = 0;
	slept_since_open = false;
	expect_serial_query = false;
	env_last_read = 0;
	env_last_read_failed = false;
}

void harness(void)
{
	arbitrary_socket();
	uint8_t st = ND(uint8_t, "S.state");

	VASSUME(st <= RTR_SHUTDOWN);
	S.state = (enum rtr_socket_state)st;
	if (S.state == RTR_ERROR_NO_DATA_AVAIL || S.state == RTR_ERROR_NO_INCR_UPDATE_AVAIL)
		g_has = false; /* these states are entered by a Cache Reset / no-data answer */
	VASSUME(sinv());
	budget = BUDGET;
	rtr_fsm_start(&S);
	VASSERT(st == RTR_SHUTDOWN, "fsm: rtr_fsm_start only returns when started on a shut-down socket");
}

/* C07: stopping a socket removes its data */
void harness_stop(void)
{
	arbitrary_socket();
	uint8_t st = ND(uint8_t, "S.state");

	VASSUME(st <= RTR_CLOSED);
	S.state = (enum rtr_socket_state)st;
	S.thread_id = ND_BOOL("S.started") ? 1 : 0;
	/* a socket that was never started (or is already stopped) holds no data */
	if (S.thread_id == 0)
		VASSUME(!g_has_pfx && !g_has_spki && S.request_session_id && S.last_update == 0);
	budget = 100;
	rtr_stop(&S);
	VASSERT(!g_has_pfx && !g_has_spki, "C07 stop: after a socket has been stopped none of its records remain");
	VASSERT(S.request_session_id && S.last_update == 0, "C05 stop: a stop/start cycle makes the next query a Reset Query");
	VASSERT(S.thread_id == 0, "stop: thread reaped");
	VWITNESS("stop end");
}

int pthread_cancel(pthread_t t)
{
	(void)t;
	return 0;
}

int pthread_join(pthread_t t, void **r)
{
	(void)t;
	(void)r;
	return 0;
}
