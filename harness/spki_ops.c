/*
 * C10 (and C18 for the router-key table): histories on the REAL ht-spkitable.c + tommyhashlin.c +
 * tommylist, starting from spki_table_init().
 *
 * The SEQUENCE OF OPERATION KINDS is fixed per job by the driver (-DOPS=1,1,2,...; 1 add, 2 remove,
 * 3 remove-by-source, 4 reload = copy_except_socket into a fresh table + swap + free of the old one);
 * all records are symbolic: AS number a free 32-bit value (so bucket collisions between different AS
 * numbers are found by the solver), SKI/SPKI symbolic in byte 0, source one of two sockets.
 * Hash table scaled to 2 initial buckets (hook RTRLIB_VERIF_HASHLIN_BIT=1) so that resize steps
 * (grow at 2, 3, 5 entries; shrink) are crossed by short histories.
 *
 * Oracle: an array model of the set, updated in parallel.  After every operation: return code,
 * update callback; at the end, for an ARBITRARY (AS, SKI): spki_table_get_all returns exactly the
 * model's entries with that AS and SKI, spki_table_search_by_ski exactly those with that SKI,
 * and the hash table and the list hold the same number of entries as the model.
 */
#include "verif.h"

#include "rtrlib/spki/hashtable/ht-spkitable.c"

#include "libc_model.h"
#include "rwlock_model.h"

#ifndef OPS
#define OPS 1, 1, 2
#endif
static const uint8_t ops[] = {OPS};
#define NOPS (sizeof(ops) / sizeof(ops[0]))
#define MCAP (NOPS + 1)

#define VM_MALLOC_CLASSES                                                                                \
	X(struct key_entry, 1) X(tommy_hashlin_node *, 2) X(tommy_hashlin_node *, 4) X(tommy_hashlin_node *, 8) \
	X(tommy_hashlin_node *, 16) X(tommy_hashlin_node *, 64)
#define VM_REALLOC_CLASSES                                                                               \
	X(struct spki_record, 1) X(struct spki_record, 2) X(struct spki_record, 3) X(struct spki_record, 4) \
	X(struct spki_record, 5) X(struct spki_record, 6)
#ifndef VM_EXACT
#define VM_CAP_MODE
#define VM_REALLOC_TYPE struct spki_record
#define VM_REALLOC_CAP MCAP
#endif
#define VM_DIRECT
#include "alloc_model.h"

void *lrtr_calloc(size_t nmemb, size_t size)
{
	size_t bytes = nmemb * size;
	void *p = vm_malloc(bytes);

	if (!p)
		return p;
	/* sizes are constants at the call sites (bucket arrays) */
	tommy_hashlin_node **b = p;

	for (size_t i = 0; i < 64; i++) {
		if (i * sizeof(*b) >= bytes)
			break;
		b[i] = NULL;
	}
	return p;
}

static struct rtr_socket SOCK[2];

/* ---- model ---- */
struct mrec {
	bool used;
	uint32_t asn;
	uint8_t ski0, spki0, ski19, spki90;
	const struct rtr_socket *socket;
};
static struct mrec model[MCAP];

static unsigned int m_count(void)
{
	unsigned int c = 0;

	for (unsigned int i = 0; i < MCAP; i++)
		if (model[i].used)
			c++;
	return c;
}

static int m_find_rec(const struct spki_record *r)
{
	for (unsigned int i = 0; i < MCAP; i++)
		if (model[i].used && model[i].asn == r->asn && model[i].ski0 == r->ski[0] && model[i].spki0 == r->spki[0] &&
		    model[i].ski19 == r->ski[SKI_SIZE - 1] && model[i].spki90 == r->spki[SPKI_SIZE - 1] && model[i].socket == r->socket)
			return (int)i;
	return -1;
}

/* ---- callback recorder ---- */
static unsigned int cb_calls, cb_added, cb_removed;
static struct spki_record cb_last;
static struct spki_table *cb_table;
static void key_cb(struct spki_table *t, const struct spki_record rec, const bool added)
{
	cb_calls++;
	cb_table = t;
	cb_last = rec;
	if (added)
		cb_added++;
	else
		cb_removed++;
}

static struct spki_record nd_key(void)
{
	struct spki_record r;

	for (unsigned int i = 0; i < SKI_SIZE; i++)
		r.ski[i] = 0;
	for (unsigned int i = 0; i < SPKI_SIZE; i++)
		r.spki[i] = 0;
	r.ski[0] = ND(uint8_t, "key.ski0");
	r.spki[0] = ND(uint8_t, "key.spki0");
	r.ski[SKI_SIZE - 1] = ND(uint8_t, "key.ski19");    /* first and last byte symbolic: identity must */
	r.spki[SPKI_SIZE - 1] = ND(uint8_t, "key.spki90"); /* depend on the whole SKI / SPKI              */
	r.asn = ND(uint32_t, "key.asn");
	r.socket = ND_BOOL("key.sock") ? &SOCK[1] : &SOCK[0];
	return r;
}

static struct spki_table TA, TB;

void harness(void)
{
	struct spki_table *T = &TA;

	vm_install();
#ifdef ALLOC_FAIL
	/* C18: the k-th allocation request fails (k symbolic, 0 = none; 1 = the table's own bucket array) */
	vm_requests = 0;
#ifdef ALLOC_FAIL_AT
	vm_fail_at = ALLOC_FAIL_AT; /* concrete per job (the symbolic index costs > 20 min on two-operation histories) */
#else
	vm_fail_at = ND(uint8_t, "alloc.fail_at");
#endif
#endif
#define ALLOC_FAILED (vm_fail_at && vm_requests >= vm_fail_at)
	if (spki_table_init(T, key_cb) != SPKI_SUCCESS) {
		VASSERT(ALLOC_FAILED, "C18 init: an error is reported only when the allocation failed");
		spki_table_free(T); /* the one thing the contract allows on a table whose init failed */
		VASSERT(vm_live == 0, "C18 init: nothing remains allocated after a failed init + free");
		VWITNESS("spki init failed end");
		return;
	}
	VASSERT(T->hashtable.bucket[0] != NULL, "C18 init: success means the bucket array exists");
	for (unsigned int i = 0; i < MCAP; i++)
		model[i].used = false;

	for (unsigned int k = 0; k < NOPS; k++) {
		cb_calls = cb_added = cb_removed = 0;
		if (ops[k] == 1) { /* add */
			struct spki_record r = nd_key();
			int at = m_find_rec(&r);
			int rc = spki_table_add_entry(T, &r);

			if (rc == SPKI_ERROR) {
				VASSERT(ALLOC_FAILED, "C18 add: an error is reported only when an allocation failed");
				VASSERT(cb_calls == 0, "C18 add: no callback for a failed add (no partial effect)");
			} else if (at >= 0) {
				VASSERT(rc == SPKI_DUPLICATE_RECORD, "add: duplicate key rejected");
				VASSERT(cb_calls == 0, "add: no callback for a rejected duplicate");
			} else {
				VASSERT(rc == SPKI_SUCCESS, "add: new key accepted");
				VASSERT(cb_calls == 1 && cb_added == 1 && cb_last.asn == r.asn && cb_last.ski[0] == r.ski[0] &&
						cb_last.spki[0] == r.spki[0] && cb_last.spki[SPKI_SIZE - 1] == r.spki[SPKI_SIZE - 1] &&
						cb_last.ski[SKI_SIZE - 1] == r.ski[SKI_SIZE - 1] && cb_last.socket == r.socket,
					"add: exactly one 'added' callback with the key");
				bool stored = false;

				for (unsigned int i = 0; i < MCAP; i++) {
					if (!stored && !model[i].used) {
						model[i].used = true;
						model[i].asn = r.asn;
						model[i].ski0 = r.ski[0];
						model[i].spki0 = r.spki[0];
						model[i].ski19 = r.ski[SKI_SIZE - 1];
						model[i].spki90 = r.spki[SPKI_SIZE - 1];
						model[i].socket = r.socket;
						stored = true;
					}
				}
				VASSUME(stored);
			}
		} else if (ops[k] == 2) { /* remove */
			struct spki_record r = nd_key();
			int at = m_find_rec(&r);
			int rc = spki_table_remove_entry(T, &r);

			if (at < 0) {
				VASSERT(rc == SPKI_RECORD_NOT_FOUND, "remove: unknown key reported");
				VASSERT(cb_calls == 0, "remove: no callback for an unknown key");
			} else {
				VASSERT(rc == SPKI_SUCCESS, "remove: stored key removed");
				VASSERT(cb_calls == 1 && cb_removed == 1 && cb_last.asn == r.asn && cb_last.ski[0] == r.ski[0] &&
						cb_last.spki[0] == r.spki[0] && cb_last.spki[SPKI_SIZE - 1] == r.spki[SPKI_SIZE - 1] &&
						cb_last.ski[SKI_SIZE - 1] == r.ski[SKI_SIZE - 1] && cb_last.socket == r.socket,
					"remove: exactly one 'removed' callback with the key");
				model[at].used = false;
			}
		} else if (ops[k] == 3) { /* remove by source */
			const struct rtr_socket *s = ND_BOOL("src") ? &SOCK[1] : &SOCK[0];
			unsigned int n = 0;

			for (unsigned int i = 0; i < MCAP; i++) {
				if (model[i].used && model[i].socket == s) {
					model[i].used = false;
					n++;
				}
			}
			int rc = spki_table_src_remove(T, s);

			VASSERT(rc == SPKI_SUCCESS, "src_remove: succeeds");
#ifndef KNOWN_F6_NO_CALLBACK
			VASSERT(cb_removed == n && cb_added == 0, "src_remove: one 'removed' callback per deleted key");
#endif
		} else if (ops[k] == 4) { /* atomic reload as rtr_sync does it: copy others, swap, free old */
			struct spki_table *N = (T == &TA) ? &TB : &TA;
			struct rtr_socket *s = ND_BOOL("src") ? &SOCK[1] : &SOCK[0];

			int rc = spki_table_init(N, NULL);

			if (rc == SPKI_SUCCESS)
				rc = spki_table_copy_except_socket(T, N, s);

			if (rc != SPKI_SUCCESS) {
				/* rtr_sync drops the shadow table and fails the exchange: the live table is untouched */
				VASSERT(ALLOC_FAILED, "C18 copy_except_socket: fails only when an allocation failed");
				spki_table_free_without_notify(N);
			} else {
				spki_table_swap(T, N);
				spki_table_free_without_notify(N);
				for (unsigned int i = 0; i < MCAP; i++)
					if (model[i].used && model[i].socket == s)
						model[i].used = false;
			}
			VASSERT(cb_calls == 0, "reload: copy/swap/free are silent");
		}
		else if (ops[k] == 5) { /* the copy half of a reload: the history continues on the shadow table itself (no struct swap:
				       * spki_table_swap memcpy's the containers, after which CBMC treats every bucket pointer as
				       * arbitrary bytes -- 27 GB, no verdict; the swap is decided structurally in harness_swap) */
			struct spki_table *N = (T == &TA) ? &TB : &TA;
			struct rtr_socket *s = ND_BOOL("src") ? &SOCK[1] : &SOCK[0];
			int rc = spki_table_init(N, key_cb);

			if (rc == SPKI_SUCCESS)
				rc = spki_table_copy_except_socket(T, N, s);
			VASSERT(rc == SPKI_SUCCESS || ALLOC_FAILED, "copy_except_socket: succeeds");
#ifndef ALLOC_FAIL
			VASSUME(rc == SPKI_SUCCESS); /* asserted above; keeps T a constant pointer for the rest of the history */
			if (1) {
#else
			if (rc == SPKI_SUCCESS) {
#endif
				VASSERT(cb_calls == 0 || N->update_fp != NULL, "copy: callbacks only through the shadow table's own callback");
				VASSERT(tommy_hashlin_count(&T->hashtable) == m_count() && tommy_list_count(&T->list) == m_count(),
					"C06 copy: the live table is not modified by the copy");
				for (unsigned int i = 0; i < MCAP; i++)
					if (model[i].used && model[i].socket == s)
						model[i].used = false;
				spki_table_free_without_notify(T);
				T = N;
			} else {
				spki_table_free_without_notify(N);
			}
		}
		VASSERT(tommy_hashlin_count(&T->hashtable) == m_count(), "hash table holds as many entries as the set");
	}

	/* ---- final queries for an arbitrary (AS, SKI) ---- */
	uint32_t q_asn = ND(uint32_t, "q.asn");
	uint8_t q_ski[SKI_SIZE];

	for (unsigned int i = 0; i < SKI_SIZE; i++)
		q_ski[i] = 0;
	q_ski[0] = ND(uint8_t, "q.ski0");
	q_ski[SKI_SIZE - 1] = ND(uint8_t, "q.ski19");
	unsigned int want_all = 0, want_ski = 0;

	for (unsigned int i = 0; i < MCAP; i++) {
		if (model[i].used && model[i].ski0 == q_ski[0] && model[i].ski19 == q_ski[SKI_SIZE - 1]) {
			want_ski++;
			if (model[i].asn == q_asn)
				want_all++;
		}
	}
	struct spki_record *res = NULL;
	unsigned int nres = 0;
	int rc;
#ifndef QUERY_SKI_ONLY
	rc = spki_table_get_all(T, q_asn, q_ski, &res, &nres);

	VASSERT(rc == SPKI_SUCCESS || (rc == SPKI_ERROR && ALLOC_FAILED), "get_all: succeeds (C18: or reports the failed allocation)");
	if (rc != SPKI_SUCCESS) {
		res = NULL; /* released by the callee */
		nres = 0;
	} else {
		VASSERT(nres == want_all, "get_all: returns exactly as many keys as are stored for (AS, SKI)");
	}
	for (unsigned int i = 0; i < MCAP; i++) {
		if (i >= nres || !res)
			break;
		VASSERT(res[i].asn == q_asn && res[i].ski[0] == q_ski[0] && res[i].ski[SKI_SIZE - 1] == q_ski[SKI_SIZE - 1] &&
				m_find_rec(&res[i]) >= 0,
			"get_all: every returned key is stored and has that AS and SKI");
		for (unsigned int j = 0; j < i; j++)
			VASSERT(!(res[i].spki[0] == res[j].spki[0] && res[i].spki[SPKI_SIZE - 1] == res[j].spki[SPKI_SIZE - 1] &&
				  res[i].socket == res[j].socket), "get_all: no key returned twice");
	}
	lrtr_free(res);
	res = NULL;
	nres = 0;
#endif
#ifndef QUERY_ALL_ONLY
	rc = spki_table_search_by_ski(T, q_ski, &res, &nres);
	VASSERT(rc == SPKI_SUCCESS || (rc == SPKI_ERROR && ALLOC_FAILED), "search_by_ski: succeeds (C18: or reports the failed allocation)");
	if (rc != SPKI_SUCCESS) {
		res = NULL;
		nres = 0;
	} else {
		VASSERT(nres == want_ski, "search_by_ski: returns exactly as many keys as are stored for the SKI");
	}
	for (unsigned int i = 0; i < MCAP; i++) {
		if (i >= nres || !res)
			break;
		VASSERT(res[i].ski[0] == q_ski[0] && res[i].ski[SKI_SIZE - 1] == q_ski[SKI_SIZE - 1] && m_find_rec(&res[i]) >= 0,
			"search_by_ski: every returned key is stored and has that SKI");
		for (unsigned int j = 0; j < i; j++)
			VASSERT(!(res[i].asn == res[j].asn && res[i].spki[0] == res[j].spki[0] &&
				  res[i].spki[SPKI_SIZE - 1] == res[j].spki[SPKI_SIZE - 1] && res[i].socket == res[j].socket),
				"search_by_ski: no key returned twice");
	}
	lrtr_free(res);
#endif
	VASSERT(tommy_list_count(&T->list) == m_count(), "list holds as many entries as the set");
#ifdef QUERY_LIST_WALK
	/* content check without the lookup functions (used where both lookups make the formula too large): every
	 * entry on the table's list is a member of the model and is found in the hash table under its own hash
	 */
	{
		tommy_node *n = tommy_list_head(&T->list);

		for (unsigned int i = 0; i < MCAP; i++) {
			if (!n)
				break;
			struct key_entry *e = n->data;
			struct spki_record r;

			key_entry_to_spki_record(e, &r);
			VASSERT(m_find_rec(&r) >= 0, "C10: every entry on the list is a stored key");
			VASSERT(tommy_hashlin_search(&T->hashtable, T->cmp_fp, e, tommy_inthash_u32(e->asn)) == e,
				"C10: every entry on the list is found in the hash table under its own hash");
			n = n->next;
		}
	}
#endif
#ifdef ASSERT_C18
	/* every block obtained from the configured allocator goes back to it when the table is freed */
	cb_calls = cb_added = cb_removed = 0;
	{
		unsigned int left = m_count();

		spki_table_free(T);
		(void)left;
	}
	VASSERT(vm_live == 0, "C18 spki: nothing remains allocated from the configured allocator once the table is freed");
#endif
	VWITNESS("spki history end");
}

/* C06 / C10: spki_table_swap exchanges the two containers of both tables completely, inside one write section of each
 * table, and nothing else (callbacks and compare functions stay with their table object).  Structural check: no
 * container operation runs after the swap (see the comment at operation 5).
 */
void harness_swap(void)
{
	vm_install();
	(void)spki_table_init(&TA, key_cb);
	(void)spki_table_init(&TB, NULL);
	VASSUME(TA.hashtable.bucket[0] && TB.hashtable.bucket[0]);
	if (ND_BOOL("a.has_key")) {
		struct spki_record r = nd_key();

		VASSUME(spki_table_add_entry(&TA, &r) == SPKI_SUCCESS);
	}
	if (ND_BOOL("b.has_key")) {
		struct spki_record r = nd_key();

		VASSUME(spki_table_add_entry(&TB, &r) == SPKI_SUCCESS);
	}
	const tommy_hashlin ha = TA.hashtable, hb = TB.hashtable;
	const tommy_list la = TA.list, lb = TB.list;
	const unsigned int wa = vl_wr_sections[vl_slot(&TA.lock)], wb = vl_wr_sections[vl_slot(&TB.lock)];

	cb_calls = 0;
	spki_table_swap(&TA, &TB);

#define HL_EQ(x, y)                                                                                                       \
	((x).bucket_bit == (y).bucket_bit && (x).bucket_max == (y).bucket_max && (x).bucket_mask == (y).bucket_mask &&   \
	 (x).low_max == (y).low_max && (x).low_mask == (y).low_mask && (x).split == (y).split && (x).count == (y).count && \
	 (x).state == (y).state && (x).bucket[0] == (y).bucket[0] && (x).bucket[1] == (y).bucket[1] &&                     \
	 (x).bucket[2] == (y).bucket[2] && (x).bucket[3] == (y).bucket[3])
	VASSERT(HL_EQ(TA.hashtable, hb) && HL_EQ(TB.hashtable, ha), "C06 spki swap: the hash tables of the two tables are exchanged completely");
	VASSERT(TA.list == lb && TB.list == la, "C06 spki swap: the lists of the two tables are exchanged");
	VASSERT(TA.update_fp == key_cb && TB.update_fp == NULL && TA.cmp_fp == key_entry_cmp && TB.cmp_fp == key_entry_cmp,
		"spki swap: callbacks and compare functions stay with their table");
	VASSERT(vl_wr_sections[vl_slot(&TA.lock)] == wa + 1 && vl_wr_sections[vl_slot(&TB.lock)] == wb + 1,
		"C06 spki swap: one write section on each table covers the exchange");
	VASSERT(!vl_held(&TA.lock) && !vl_held(&TB.lock), "spki swap: locks released");
	VASSERT(cb_calls == 0, "spki swap: silent");
	VWITNESS("spki swap end");
}
