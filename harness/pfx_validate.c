/*
 * C01: one pfx_table_validate / pfx_table_validate_r call on an ARBITRARY Inv-valid table
 * against RFC 6811 evaluated by full traversal of a flat snapshot (the oracle never uses
 * rtrlib's trie search).  Query: any AS (incl. 0), any prefix bits (host bits NOT assumed
 * zero), any length 0..width, reasons requested or not.
 */
#define TL_WITH_REASONS
#include "trie_lib.h"

#define FAMV (FAM == 4 ? LRTR_IPV4 : LRTR_IPV6)
#define OTHV (FAM == 4 ? LRTR_IPV6 : LRTR_IPV4)
#define MAXREASON ((TD + 1) * TE)

static struct pfx_table T;
static struct tl_snap S0, S1;

void harness_validate(void)
{
	vm_install();
	pfx_table_init(&T, NULL);
	tl_shape_on = true;
	struct trie_node *a = tl_template(FAMV, TD, TE);

	tl_shape_on = false;
	struct trie_node *b = tl_template(OTHV, 0, 1);

	if (FAM == 4) {
		T.ipv4 = a;
		T.ipv6 = b;
	} else {
		T.ipv6 = a;
		T.ipv4 = b;
	}
	tl_snapshot(&T, &S0);
	VASSUME(tl_sinv(&S0, TE));
	hv_table = &T;
	hv_scramble(); /* C16: no lock is held between calls */

	/* the query */
	struct lrtr_ip_addr q;
	bool other = ND_BOOL("q.otherfam");

	q.ver = other ? OTHV : FAMV;
	if (q.ver == LRTR_IPV4) {
		q.u.addr4.addr = ND(uint32_t, "q.addr0");
	} else {
		q.u.addr6.addr[0] = ND(uint32_t, "q.addr0");
		q.u.addr6.addr[1] = ND(uint32_t, "q.addr1");
		q.u.addr6.addr[2] = ND(uint32_t, "q.addr2");
		q.u.addr6.addr[3] = ND(uint32_t, "q.addr3");
	}
	uint8_t qlen = ND(uint8_t, "q.len");
	uint32_t asn = ND(uint32_t, "q.asn");

	VASSUME(qlen <= tl_width(q.ver));
	bool with_reasons = ND_BOOL("q.reasons");
	struct pfx_record w = tl_nd_record(q.ver); /* universally quantified witness record */

	struct pfx_record *reason = NULL;
	unsigned int rlen = 0;
	enum pfxv_state res = (enum pfxv_state)77;
	int rc;

	if (with_reasons)
		rc = pfx_table_validate_r(&T, &reason, &rlen, asn, &q, qlen, &res);
	else
		rc = pfx_table_validate(&T, asn, &q, qlen, &res);

	struct tl_oracle o;

	tl_foracle(q.ver == LRTR_IPV4 ? &S0.v4 : &S0.v6, asn, &q, qlen, &o);
	enum pfxv_state expect = o.covering == 0 ? BGP_PFXV_STATE_NOT_FOUND :
						   (o.matching > 0 ? BGP_PFXV_STATE_VALID : BGP_PFXV_STATE_INVALID);

	VASSERT(rc == PFX_SUCCESS, "validate: succeeds (no allocation failure injected)");
	VASSERT(res == expect, "validate: VALID / INVALID / NOT_FOUND exactly as RFC 6811 prescribes");

	if (with_reasons) {
		unsigned int in_reason = 0; /* occurrences of w among the reasons */
		bool all_cover = true, all_stored = true, one_matches = false;

		VASSERT(rlen <= MAXREASON, "validate_r: reason list no longer than the records on the path");
		if (res == BGP_PFXV_STATE_NOT_FOUND) {
			VASSERT(rlen == 0 && reason == NULL, "validate_r: NOT_FOUND yields no reasons");
		} else {
			VASSERT(reason != NULL && rlen > 0, "validate_r: VALID/INVALID yield a reason list");
			for (unsigned int i = 0; i < MAXREASON; i++) {
				if (i >= rlen || !reason)
					break;
				if (tl_rec_eq(&reason[i], &w))
					in_reason++;
				if (!tl_covers(&reason[i], &q, qlen))
					all_cover = false;
				if (tl_scount(&S0, &reason[i]) != 1)
					all_stored = false;
				if (reason[i].asn != 0 && reason[i].asn == asn && qlen <= reason[i].max_len)
					one_matches = true;
			}
			VASSERT(all_cover, "validate_r: every reason covers the route");
			VASSERT(all_stored, "validate_r: every reason is a stored record");
			VASSERT(in_reason <= 1, "validate_r: no reason is repeated");
			if (res == BGP_PFXV_STATE_INVALID) {
				VASSERT(rlen == o.covering, "validate_r: INVALID yields as many reasons as covering records");
				VASSERT(in_reason == ((tl_scount(&S0, &w) == 1 && tl_covers(&w, &q, qlen)) ? 1u : 0u),
					"validate_r: INVALID yields exactly the covering records");
			} else {
				VASSERT(one_matches, "validate_r: VALID reasons contain a matching record");
			}
		}
	}
#ifdef VL_HAVOC
	VASSERT(vl_rd_sections[vl_slot(&T.lock)] == 1 && vl_wr_sections[vl_slot(&T.lock)] == 0 && hv_unlocked_root_changes == 0,
		"C16 validate: exactly one read section covers everything the call reads, nothing is modified");
#endif
	hv_restore();
	tl_snapshot(&T, &S1);
	VASSERT(tl_scount(&S1, &w) == tl_scount(&S0, &w) && tl_stotal(&S1) == tl_stotal(&S0),
		"validate: table unchanged");
	VWITNESS("validate end");
}
