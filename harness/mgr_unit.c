/*
 * C15: the REAL rtr_mgr.c: rtr_mgr_init / rtr_mgr_add_group / rtr_mgr_remove_group on arbitrary
 * group arrays, and ONE socket state change delivered through the real rtr_mgr_cb() in an
 * ARBITRARY manager state (NG groups, <=2 sockets each; arbitrary group statuses, socket states and
 * last_update values), with the real rtr_stop()/rtr_change_socket_state() underneath so that the
 * nested RTR_SHUTDOWN callbacks happen.  rtr_start() is a recorder.
 */
#include "verif.h"

#include <pthread.h>
#include <stdlib.h>
#include <string.h>

#include "rtrlib/rtr/rtr_private.h"
int stub_rtr_start(struct rtr_socket *s);
#define rtr_start stub_rtr_start
#include "rtrlib/rtr_mgr.c"
#undef rtr_start

#include "rwlock_model.h"

#ifndef NG
#define NG 3
#endif
#define NS 2

#define VM_MALLOC_CLASSES                                                                                      \
	X(struct rtr_mgr_config, 1) X(struct pfx_table, 1) X(struct spki_table, 1) X(struct tommy_list_wrapper, 1) \
	X(struct rtr_mgr_group, 1) X(struct rtr_mgr_group_node, 1)
#define VM_REALLOC_CLASSES X(char, 1)
#define VM_DIRECT
#include "alloc_model.h"

void lrtr_dbg(const char *frmt, ...)
{
	(void)frmt;
}

/* ---- environment ---- */
static struct rtr_socket SK[NG + 1][NS];
static struct tr_socket TRS[NG + 1][NS];
static unsigned int started[NG + 1][NS], stopped[NG + 1][NS];

static bool locate(const struct rtr_socket *s, unsigned int *g, unsigned int *k)
{
	for (unsigned int i = 0; i < NG + 1; i++)
		for (unsigned int j = 0; j < NS; j++)
			if (s == &SK[i][j]) {
				*g = i;
				*k = j;
				return true;
			}
	return false;
}

int stub_rtr_start(struct rtr_socket *s)
{
	unsigned int g, k;

	if (locate(s, &g, &k))
		started[g][k]++;
	s->thread_id = 1;
	return RTR_SUCCESS;
}

void tr_close(struct tr_socket *t)
{
	(void)t;
}

void tr_free(struct tr_socket *t)
{
	(void)t;
}

int pthread_cancel(pthread_t t)
{
	(void)t;
	return 0;
}

int pthread_join(pthread_t t, void **r)
{
	(void)t;
	(void)r;
	return 0;
}

void pfx_table_init(struct pfx_table *t, pfx_update_fp fp)
{
	t->ipv4 = t->ipv6 = NULL;
	t->update_fp = fp;
}

int spki_table_init(struct spki_table *t, spki_update_fp fp)
{
	t->update_fp = fp;
	return SPKI_SUCCESS; /* allocation never fails in this unit */
}

void pfx_table_free(struct pfx_table *t)
{
	(void)t;
}

void spki_table_free(struct spki_table *t)
{
	(void)t;
}

int pfx_table_src_remove(struct pfx_table *t, const struct rtr_socket *s)
{
	unsigned int g, k;

	(void)t;
	if (locate(s, &g, &k))
		stopped[g][k]++;
	return 0;
}

int spki_table_src_remove(struct spki_table *t, const struct rtr_socket *s)
{
	(void)t;
	(void)s;
	return 0;
}

/* qsort model: insertion sort of <= NG+1 elements of the one element size used by rtr_mgr_init */
void qsort(void *base, size_t n, size_t size, int (*cmp)(const void *, const void *))
{
	struct rtr_mgr_group *a = base;

	VASSERT(size == sizeof(struct rtr_mgr_group), "qsort model: element type");
	for (size_t i = 1; i < NG + 1; i++) {
		if (i >= n)
			break;
		for (size_t j = i; j > 0; j--) {
			if (cmp(&a[j - 1], &a[j]) > 0) {
				struct rtr_mgr_group tmp = a[j - 1];

				a[j - 1] = a[j];
				a[j] = tmp;
			} else {
				break;
			}
		}
	}
}

/* ---- status recorder ---- */
static unsigned int st_calls;
static enum rtr_mgr_status last_status[256];
static bool reported[256][4];
static void status_cb(const struct rtr_mgr_group *g, enum rtr_mgr_status st, const struct rtr_socket *s, void *d)
{
	(void)s;
	(void)d;
	st_calls++;
	VASSERT(g->status == st, "status callback reports the group's current status");
	last_status[g->preference] = st;
	if (st <= RTR_MGR_ERROR)
		reported[g->preference][st] = true;
}

static struct rtr_mgr_group GA[NG + 1];
static struct rtr_socket *SP[NG + 1][NS];

static void arbitrary_groups(unsigned int n)
{
	for (unsigned int i = 0; i < NG + 1; i++) {
		for (unsigned int j = 0; j < NS; j++) {
			SP[i][j] = &SK[i][j];
			SK[i][j].tr_socket = &TRS[i][j];
			started[i][j] = stopped[i][j] = 0;
		}
		if (i >= n)
			continue;
		GA[i].sockets = SP[i];
		GA[i].sockets_len = ND(uint8_t, "group.sockets_len");
		VASSUME(GA[i].sockets_len <= NS);
		GA[i].preference = ND(uint8_t, "group.preference");
		GA[i].status = RTR_MGR_CLOSED;
	}
}

static unsigned int list_len(struct rtr_mgr_config *c, bool *ascending)
{
	unsigned int n = 0;
	int last = -1;

	*ascending = true;
	for (tommy_node *nd = tommy_list_head(&c->groups->list); nd && n < NG + 2; nd = nd->next) {
		struct rtr_mgr_group_node *gn = nd->data;

		if ((int)gn->group->preference <= last)
			*ascending = false;
		last = gn->group->preference;
		n++;
	}
	return n;
}

/* (a) configuration API */
void harness_config(void)
{
	struct rtr_mgr_config *conf = NULL;
	unsigned int n = NG;
	bool asc;

	arbitrary_groups(n);
	bool dup = false, empty = false;

	for (unsigned int i = 0; i < NG; i++) {
		if (GA[i].sockets_len == 0)
			empty = true;
		for (unsigned int j = 0; j < i; j++)
			if (GA[i].preference == GA[j].preference)
				dup = true;
	}
	unsigned int refresh = ND(uint32_t, "refresh"), expire = ND(uint32_t, "expire"), retry = ND(uint32_t, "retry");
	bool iv_ok = refresh >= 1 && refresh <= 86400 && expire >= 600 && expire <= 172800 && retry >= 1 && retry <= 7200;
	int rc = rtr_mgr_init(&conf, GA, n, refresh, expire, retry, NULL, NULL, status_cb, NULL);

	VASSERT((rc == RTR_SUCCESS) == (!dup && !empty && iv_ok),
		"C15 init: rejects groups without sockets, duplicate preferences and out-of-range intervals, accepts everything else");
	if (rc != RTR_SUCCESS) {
		VASSERT(conf == NULL, "init: no configuration handed out on failure");
		VASSERT(!iv_ok || dup || empty, "init: a failure has one of the documented causes");
		VWITNESS("config rejected end");
		return;
	}
	VASSERT(list_len(conf, &asc) == n && asc, "C15 init: groups are presented in ascending preference order");
	VASSERT(rtr_mgr_get_first_group(conf)->preference <= GA[NG - 1].preference, "init: first group is the most preferred");

	/* one arbitrary add or remove */
	if (ND_BOOL("do.add")) {
		struct rtr_mgr_group ng;

		ng.sockets = SP[NG];
		ng.sockets_len = 1 + (ND_BOOL("add.two") ? 1 : 0);
		ng.preference = ND(uint8_t, "add.preference");
		ng.status = RTR_MGR_CLOSED;
		bool used = false;

		for (unsigned int i = 0; i < NG; i++)
			if (GA[i].preference == ng.preference)
				used = true;
		rc = rtr_mgr_add_group(conf, &ng);
		VASSERT((rc == RTR_SUCCESS) == !used, "C15 add_group: rejects exactly a preference already in use");
		VASSERT(list_len(conf, &asc) == n + (used ? 0 : 1) && asc, "C15 add_group: list stays in ascending preference order");
		VASSERT(conf->len == n + (used ? 0 : 1), "add_group: group count");
	} else {
		unsigned int pref = ND(uint8_t, "remove.preference");
		bool present = false;

		for (unsigned int i = 0; i < NG; i++)
			if (GA[i].preference == pref)
				present = true;
		rc = rtr_mgr_remove_group(conf, pref);
		VASSERT((rc == RTR_SUCCESS) == (present && n > 1), "C15 remove_group: the last group cannot be removed, unknown preferences are refused");
		VASSERT(list_len(conf, &asc) == n - ((present && n > 1) ? 1 : 0) && asc, "C15 remove_group: list stays in ascending preference order");
	}
	VWITNESS("config end");
}

/* (b) one step of the failover logic from an arbitrary manager state */
void harness_step(void)
{
	struct rtr_mgr_config *conf = NULL;
	unsigned int pre_status[NG];
	unsigned int pre_sstate[NG][NS];

	arbitrary_groups(NG);
	for (unsigned int i = 0; i < NG; i++) {
#ifdef SLEN
		GA[i].sockets_len = SLEN; /* concrete group size per job: keeps the nested stop/callback loops concrete */
#endif
		VASSUME(GA[i].sockets_len >= 1);
		for (unsigned int j = 0; j < i; j++)
			VASSUME(GA[i].preference > GA[j].preference); /* already ascending and distinct */
	}
	/* the configuration is built directly (ascending preferences), not through rtr_mgr_init: the sorting
	 * code is the subject of harness_config, here it would only enlarge the formula
	 */
	static struct rtr_mgr_config CONF;
	static struct tommy_list_wrapper WR;
	static struct rtr_mgr_group_node GN[NG];
	static struct pfx_table PT;
	static struct spki_table ST;
	struct rtr_mgr_group *G[NG];

	conf = &CONF;
	conf->groups = &WR;
	conf->len = NG;
	conf->status_fp = status_cb;
	conf->status_fp_data = NULL;
	conf->pfx_table = &PT;
	conf->spki_table = &ST;
	pthread_rwlock_init(&conf->mutex, NULL);
	tommy_list_init(&WR.list);
	for (unsigned int i = 0; i < NG; i++) {
		G[i] = &GA[i];
		GN[i].group = G[i];
		tommy_list_insert_tail(&WR.list, &GN[i].node, &GN[i]);
		for (unsigned int j = 0; j < NS; j++) {
			struct rtr_socket *s = G[i]->sockets[j];

			s->pfx_table = &PT;
			s->spki_table = &ST;
			s->connection_state_fp = rtr_mgr_cb;
			s->connection_state_fp_param_config = conf;
			s->connection_state_fp_param_group = G[i];
			s->request_session_id = true;
			s->serial_number = 0;
			s->version = 1;
			s->is_resetting = false;
			s->has_received_pdus = false;
		}
	}
	for (unsigned int i = 0; i < NG; i++) {
		uint8_t st = ND(uint8_t, "group.status");

		VASSUME(st <= RTR_MGR_ERROR);
		G[i]->status = (enum rtr_mgr_status)st;
		pre_status[i] = st;
		for (unsigned int j = 0; j < NS; j++) {
			struct rtr_socket *s = G[i]->sockets[j];
			uint8_t ss = ND(uint8_t, "socket.state");

			VASSUME(ss <= RTR_CLOSED);
			s->state = (enum rtr_socket_state)ss;
			pre_sstate[i][j] = ss;
			s->last_update = ND(uint32_t, "socket.last_update");
			s->thread_id = (ss == RTR_CLOSED) ? 0 : 1;
			/* a closed group's sockets are not running */
			if (st == RTR_MGR_CLOSED && j < G[i]->sockets_len)
				VASSUME(ss == RTR_CLOSED || ss == RTR_SHUTDOWN);
		}
	}
	/* at most one group is ESTABLISHED (the manager's own invariant, see (O1)) */
	unsigned int n_est = 0;

	for (unsigned int i = 0; i < NG; i++)
		if (pre_status[i] == RTR_MGR_ESTABLISHED)
			n_est++;
	VASSUME(n_est <= 1);
	st_calls = 0;

	/* one arbitrary socket state change, delivered the way rtr_change_socket_state does */
	/* which socket changes state is fixed per job (-DEV_G, -DEV_K): a symbolic socket pointer makes every
	 * access below it a case split over all sockets and groups
	 */
#ifndef EV_G
#define EV_G 0
#endif
#ifndef EV_K
#define EV_K 0
#endif
	const uint8_t g = EV_G, k = EV_K;
	uint8_t ns = ND(uint8_t, "event.state");

	VASSUME(g < NG && k < G[g]->sockets_len && ns <= RTR_SHUTDOWN);
	struct rtr_socket *sock = G[g]->sockets[k];

	VASSUME(sock->state != RTR_SHUTDOWN && sock->state != RTR_CLOSED && sock->state != ns);
	if (ns == RTR_ESTABLISHED)
		VASSUME(sock->last_update != 0);
	rtr_change_socket_state(sock, (enum rtr_socket_state)ns);

	/* ---- oracles ---- */
	bool became_est = G[g]->status == RTR_MGR_ESTABLISHED && pre_status[g] != RTR_MGR_ESTABLISHED;

	if (became_est) {
		for (unsigned int j = 0; j < NS; j++) {
			if (j >= G[g]->sockets_len)
				break;
			const struct rtr_socket *s = G[g]->sockets[j];

			VASSERT(s->last_update != 0 && (s->state == RTR_ESTABLISHED || s->state == RTR_RESET || s->state == RTR_SYNC),
				"C15: a group becomes ESTABLISHED only when every one of its sockets holds synchronised data");
		}
	}
	for (unsigned int i = 0; i < NG; i++) {
		bool any_stopped = false;

		for (unsigned int j = 0; j < NS; j++)
			if (j < G[i]->sockets_len && !(i == g && j == k) &&
			    (G[i]->sockets[j]->state == RTR_CLOSED || G[i]->sockets[j]->state == RTR_SHUTDOWN) &&
			    pre_sstate[i][j] != RTR_CLOSED && pre_sstate[i][j] != RTR_SHUTDOWN)
				any_stopped = true;
		if (i < g)
			VASSERT(!any_stopped || pre_status[i] == RTR_MGR_CLOSED,
				"C15: no group is shut down on behalf of a less-preferred one");
		if (i > g && became_est && pre_status[i] != RTR_MGR_CLOSED) {
			VASSERT(G[i]->status == RTR_MGR_CLOSED && reported[G[i]->preference][RTR_MGR_CLOSED],
				"C15: when a group becomes ESTABLISHED every less-preferred group is shut down and reported CLOSED");
			for (unsigned int j = 0; j < NS; j++)
				if (j < G[i]->sockets_len)
					VASSERT(G[i]->sockets[j]->state == RTR_CLOSED || G[i]->sockets[j]->state == RTR_SHUTDOWN,
						"C15: sockets of a shut-down group are stopped");
		}
		if (!became_est && i != g)
			VASSERT(!any_stopped, "C15: groups are only shut down when a more-preferred group becomes ESTABLISHED");
	}
	/* error => start the most preferred closed group, if no group is established */
	bool is_err = ns == RTR_ERROR_FATAL || ns == RTR_ERROR_TRANSPORT || ns == RTR_ERROR_NO_DATA_AVAIL;
	bool some_est = false;
	int best_closed = -1;

	for (unsigned int i = 0; i < NG; i++) {
		if (pre_status[i] == RTR_MGR_ESTABLISHED && i != g)
			some_est = true;
		if (best_closed < 0 && i != g && pre_status[i] == RTR_MGR_CLOSED)
			best_closed = (int)i;
	}
	for (unsigned int i = 0; i < NG; i++) {
		for (unsigned int j = 0; j < NS; j++) {
			unsigned int want = (is_err && !some_est && (int)i == best_closed && j < G[i]->sockets_len) ? 1 : 0;
			unsigned int gg = 0, kk = 0;

			if (!locate(G[i]->sockets[j], &gg, &kk))
				continue;
			VASSERT(started[gg][kk] == want,
				"C15: when a group enters ERROR while none is ESTABLISHED exactly the most-preferred closed group is started");
		}
	}
	if (is_err)
		VASSERT(G[g]->status == RTR_MGR_ERROR, "C15: an error state of a socket puts its group into ERROR");
	VWITNESS("step end");
}
