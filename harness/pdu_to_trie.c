/*
 * C04-3: what a hostile prefix PDU can do to the REAL trie.  rtr_prefix_pdu_2_pfx_record() copies the PDU's
 * fields into a pfx_record unchanged, so the record below stands for "whatever a cache can send":
 * prefix length 0..255, max length 0..255, host bits set, any AS.  It is added to / removed from an
 * arbitrary Inv-valid table and an arbitrary validation follows -- with all CBMC memory-safety and
 * undefined-shift checks on, once as shipped (-DNDEBUG) and once with rtrlib's asserts as obligations.
 *
 * -DLENGTHS_CHECKED: the lengths are within the address width and min <= max, i.e. what
 * rtr_update_pfx_table lets through (asserted in the rtr_sync unit: "a prefix record with a length
 * beyond the address width never reaches the prefix table").
 */
#include "trie_lib.h"

static struct pfx_table T;
static struct tl_snap S0;

void harness(void)
{
	vm_install();
	pfx_table_init(&T, NULL);
	tl_shape_on = true;
	T.ipv4 = tl_template(LRTR_IPV4, TD, TE);
	tl_shape_on = false;
	T.ipv6 = tl_template(LRTR_IPV6, 0, 1);
	tl_snapshot(&T, &S0);
	VASSUME(tl_sinv(&S0, TE));

	struct pfx_record r;

#ifdef REC_V6
	r.prefix.ver = LRTR_IPV6;
#else
	r.prefix.ver = LRTR_IPV4;
#endif
	if (r.prefix.ver == LRTR_IPV4) {
		r.prefix.u.addr4.addr = ND(uint32_t, "rec.addr");
	} else {
		for (int i = 0; i < 4; i++)
			r.prefix.u.addr6.addr[i] = ND(uint32_t, "rec.addr");
	}
	r.asn = ND(uint32_t, "rec.asn");
	r.min_len = ND(uint8_t, "rec.len");
	r.max_len = ND(uint8_t, "rec.maxlen");
	r.socket = tl_nd_socket("rec.sock");
#ifdef LENGTHS_CHECKED
	VASSUME(r.min_len <= tl_width(r.prefix.ver) && r.max_len <= tl_width(r.prefix.ver) && r.min_len <= r.max_len);
#endif
	int rc;

	if (ND_BOOL("announce"))
		rc = pfx_table_add(&T, &r);
	else
		rc = pfx_table_remove(&T, &r);
	VASSERT(rc == PFX_SUCCESS || rc == PFX_DUPLICATE_RECORD || rc == PFX_RECORD_NOT_FOUND, "C04: applying the record returns a documented code");

	struct lrtr_ip_addr q;

	q.ver = r.prefix.ver; /* the query goes to the family that was just modified */
	if (q.ver == LRTR_IPV4) {
		q.u.addr4.addr = ND(uint32_t, "q.addr");
	} else {
		for (int i = 0; i < 4; i++)
			q.u.addr6.addr[i] = ND(uint32_t, "q.addr");
	}
	uint8_t qlen = ND(uint8_t, "q.len");
	enum pfxv_state res;

	VASSUME(qlen <= tl_width(q.ver));
	rc = pfx_table_validate(&T, ND(uint32_t, "q.asn"), &q, qlen, &res);
	VASSERT(rc == PFX_SUCCESS, "C04: validation after the record was applied returns");
	VWITNESS("pdu_to_trie end");
}
