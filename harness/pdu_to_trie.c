/*
 * C04-3: every prefix PDU a successful rtr_receive_pdu can deliver -- with HOSTILE field values
 * (prefix length 0 or 33..255, max length < length, flags 0..255, host bits set) -- applied through
 * the REAL rtr_update_pfx_table to the REAL trie (arbitrary Inv-valid pre-state), followed by an
 * arbitrary pfx_table_validate: no invalid memory access, no undefined shift, no assertion, returns.
 */
#include "verif.h"

/* packets.c first (static rtr_update_pfx_table), then the trie library (includes trie-pfx.c) */
#include "rtrlib/rtr/packets.c"

#include "libc_model.h"
#define STREAM_LEN 8
#define SENT_MAX 64
#include "wire.h"
#include "trie_lib.h"

int lrtr_get_monotonic_time(time_t *s)
{
	*s = 1;
	return 0;
}

static struct pfx_table T;
static struct tl_snap S0;

void harness(void)
{
	struct rtr_socket sock;
	struct tr_socket tr;

	vm_install();
	pfx_table_init(&T, NULL);
	tl_shape_on = true;
	T.ipv4 = tl_template(LRTR_IPV4, TD, TE);
	tl_shape_on = false;
	T.ipv6 = tl_template(LRTR_IPV6, 0, 1);
	tl_snapshot(&T, &S0);
	VASSUME(tl_sinv(&S0, TE));
	sock.tr_socket = &tr;
	sock.version = 1;
	sock.state = RTR_SYNC;
	sock.connection_state_fp = NULL;
	sock.pfx_table = &T;
	w_sock = &sock;
	w_send_may_fail = true;

	bool v6 = ND_BOOL("pdu.v6");
	union {
		struct pdu_ipv4 p4;
		struct pdu_ipv6 p6;
	} u;

	if (!v6) {
		u.p4.ver = 1;
		u.p4.type = IPV4_PREFIX;
		u.p4.reserved = 0;
		u.p4.len = 20;
		u.p4.flags = ND(uint8_t, "flags");
		u.p4.prefix_len = ND(uint8_t, "plen");
		u.p4.max_prefix_len = ND(uint8_t, "mlen");
		u.p4.zero = ND(uint8_t, "zero");
		u.p4.prefix = ND(uint32_t, "prefix");
		u.p4.asn = ND(uint32_t, "asn");
	} else {
		u.p6.ver = 1;
		u.p6.type = IPV6_PREFIX;
		u.p6.reserved = 0;
		u.p6.len = 32;
		u.p6.flags = ND(uint8_t, "flags");
		u.p6.prefix_len = ND(uint8_t, "plen");
		u.p6.max_prefix_len = ND(uint8_t, "mlen");
		u.p6.zero = ND(uint8_t, "zero");
		for (int i = 0; i < 4; i++)
			u.p6.prefix[i] = ND(uint32_t, "prefix");
		u.p6.asn = ND(uint32_t, "asn");
	}
	int rc = rtr_update_pfx_table(&sock, &T, &u);

	VASSERT(rc == RTR_SUCCESS || rc == RTR_ERROR, "C04: applying a hostile prefix PDU returns");
	/* an arbitrary query afterwards */
	struct lrtr_ip_addr q;

	q.ver = ND_BOOL("q.v6") ? LRTR_IPV6 : LRTR_IPV4;
	if (q.ver == LRTR_IPV4) {
		q.u.addr4.addr = ND(uint32_t, "q.addr");
	} else {
		for (int i = 0; i < 4; i++)
			q.u.addr6.addr[i] = ND(uint32_t, "q.addr");
	}
	uint8_t qlen = ND(uint8_t, "q.len");
	enum pfxv_state res;

	VASSUME(qlen <= (q.ver == LRTR_IPV4 ? 32 : 128));
	rc = pfx_table_validate(&T, ND(uint32_t, "q.asn"), &q, qlen, &res);
	VASSERT(rc == PFX_SUCCESS, "C04: validation after a hostile PDU returns");
	VWITNESS("pdu_to_trie end");
}
