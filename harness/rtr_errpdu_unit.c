/*
 * C14 unit: the REAL Error Report senders of packets.c (rtr_send_error_pdu_from_host,
 * rtr_send_error_pdu_from_network, rtr_send_error_pdu, rtr_send_pdu) and the byte-order
 * conversion, for every PDU type a report can encapsulate, with ALL field values symbolic.
 *
 * The offending PDU is first chosen as arbitrary NETWORK-order bytes net[] ("as received"); the
 * host-order struct handed to the sender is derived from it with the harness's own big-endian
 * decoder (independent of rtrlib's conversion code).  The wire monitor then demands that the report
 * encapsulates net[] byte for byte.
 *
 * This harness is also the proof obligation for the recording stub stub_err_from_host() used by
 * the rtr_sync unit: a report is put on the wire exactly when len == 0 or len >= 8.
 */
#include "verif.h"

#include "rtrlib/rtr/packets.c"

#include "libc_model.h"
#define STREAM_LEN 8
#ifndef SENT_MAX
#define SENT_MAX 224
#endif
#define MAX_SENDS 2
#include "wire.h"

static const char *const texts[] = {"Wrong session_id in Cache Response PDU", "Realloc failed", "x", ""};

#ifndef KIND
#define KIND 4
#endif

void harness(void)
{
	struct rtr_socket s;
	struct tr_socket tr;
	uint8_t net[123];
	union {
		struct pdu_header h;
		struct pdu_ipv4 v4;
		struct pdu_ipv6 v6;
		struct pdu_router_key rk;
		struct pdu_end_of_data_v0 e0;
		struct pdu_end_of_data_v1 e1;
		struct pdu_cache_response cr;
		struct pdu_serial_notify sn;
		uint8_t raw[123];
	} host;
	unsigned int len;

	w_sock = &s;
	w_send_may_fail = false;
	w_nsent = 0;
	s.tr_socket = &tr;
	s.version = ND(uint8_t, "version");
	VASSUME(s.version <= 1);
	s.state = RTR_SYNC;
	s.connection_state_fp = NULL;
	for (unsigned int i = 0; i < 123; i++)
		net[i] = ND(uint8_t, "net");

	/* decode net[] into the host-order struct of the PDU kind under test */
	host.h.ver = net[0];
	host.h.type = net[1];
#if KIND == 4 /* IPv4 Prefix, 20 bytes */
	len = 20;
	VASSUME(net[1] == IPV4_PREFIX);
	host.h.reserved = w_be16(net + 2);
	host.v4.flags = net[8];
	host.v4.prefix_len = net[9];
	host.v4.max_prefix_len = net[10];
	host.v4.zero = net[11];
	host.v4.prefix = w_be32(net + 12);
	host.v4.asn = w_be32(net + 16);
#elif KIND == 6 /* IPv6 Prefix, 32 bytes */
	len = 32;
	VASSUME(net[1] == IPV6_PREFIX);
	host.h.reserved = w_be16(net + 2);
	host.v6.flags = net[8];
	host.v6.prefix_len = net[9];
	host.v6.max_prefix_len = net[10];
	host.v6.zero = net[11];
	for (int i = 0; i < 4; i++)
		host.v6.prefix[i] = w_be32(net + 12 + 4 * i);
	host.v6.asn = w_be32(net + 28);
#elif KIND == 9 /* Router Key, 123 bytes */
	len = 123;
	VASSUME(net[1] == ROUTER_KEY);
	host.rk.flags = net[2];
	host.rk.zero = net[3];
	for (int i = 0; i < SKI_SIZE; i++)
		host.rk.ski[i] = net[8 + i];
	host.rk.asn = w_be32(net + 28);
	for (int i = 0; i < SPKI_SIZE; i++)
		host.rk.spki[i] = net[32 + i];
#elif KIND == 70 /* End of Data v0, 12 bytes */
	len = 12;
	VASSUME(net[1] == EOD && net[0] == 0);
	host.h.reserved = w_be16(net + 2);
	host.e0.sn = w_be32(net + 8);
#elif KIND == 71 /* End of Data v1, 24 bytes */
	len = 24;
	VASSUME(net[1] == EOD && net[0] == 1);
	host.h.reserved = w_be16(net + 2);
	host.e1.sn = w_be32(net + 8);
	host.e1.refresh_interval = w_be32(net + 12);
	host.e1.retry_interval = w_be32(net + 16);
	host.e1.expire_interval = w_be32(net + 20);
#elif KIND == 8 /* header only (unexpected PDU of any type but Router Key / Error): 8 bytes */
	len = 8;
	VASSUME(net[1] != ERROR);
	if (net[1] == ROUTER_KEY) {
		host.rk.flags = net[2];
		host.rk.zero = net[3];
	} else {
		host.h.reserved = w_be16(net + 2);
	}
#elif KIND == 0 /* no offending PDU at all (internal error, foreign session in Cache Response) */
	len = 0;
#endif
#if KIND != 0
	host.h.len = w_be32(net + 4);
#endif
	uint16_t code = ND(uint8_t, "code");
	/* the text is fixed per job (a symbolic text length would make the sender's VLAs symbolic-size) */
#ifndef TEXT
#define TEXT 0
#endif
#if TEXT == 9
	const char *txt = NULL;
	const uint32_t txt_len = 0;
#else
	const char *txt = texts[TEXT];
	const uint32_t txt_len = TEXT == 3 ? 0 : (TEXT == 0 ? 39 : (TEXT == 1 ? 15 : 2));
#endif
	int rc = rtr_send_error_pdu_from_host(&s, KIND == 0 ? NULL : (void *)&host, len, (enum pdu_error_type)code, txt, txt_len);

	VASSERT(rc == RTR_SUCCESS, "C14 sender: a report is put on the wire for a PDU of any fixed-size type and for an internal error without PDU");
	VASSERT(w_nsent == 1, "C14 sender: exactly one PDU is handed to the transport");
	if (w_nsent == 1) {
		w_check_error_report(0, code, net, len, len);
		VASSERT(w_be32(w_sent[0] + 8) == len, "C14 sender: the whole offending PDU is encapsulated");
		VASSERT(w_sent_len[0] == 16 + len + txt_len, "C14 sender: report length = header + PDU + text");
	}
	VWITNESS("errpdu end");
}

/* a report about an Error Report is never sent; lengths 1..7 are refused */
void harness_refusals(void)
{
	struct rtr_socket s;
	struct tr_socket tr;
	struct pdu_header h;

	w_sock = &s;
	w_nsent = 0;
	s.tr_socket = &tr;
	s.version = 1;
	s.state = RTR_SYNC;
	s.connection_state_fp = NULL;
	h.ver = 1;
	h.type = ERROR;
	h.reserved = ND(uint16_t, "code");
	h.len = ND(uint32_t, "len");
	int rc = rtr_send_error_pdu_from_host(&s, &h, 8, CORRUPT_DATA, NULL, 0);

	VASSERT(w_nsent == 0, "C14 sender: no Error Report in reply to an Error Report");
	(void)rc;
	VWITNESS("refusals end");
}
