/*
 * The protocol unit: the REAL rtr_sync() + rtr_sync_receive_and_store_pdus() + store/apply/undo code
 * + error-report senders of packets.c, driven by a script of up to NPAY payload PDUs.
 *
 *  - rtr_receive_pdu() is replaced (goto-instrument --replace-calls) by its CONTRACT
 *    stub_receive_pdu(): per call either a transport/protocol failure with the state change the real
 *    function makes, or a decoded PDU of any type a successful rtr_receive_pdu can deliver (type,
 *    length and version rules proved on the real function in harness/rtr_recv.c), all fields symbolic.
 *  - tables: lib/table_model.h (adequacy = C02/C09/C10 on the real containers)
 *  - transport send: wire monitor (lib/wire.h), clock: symbolic.
 *  - scaled through the RTRLIB_VERIF hooks: RTR_MAX_PDU_LEN=160, store increment=2.
 *
 * Hosts C03, C05(b), C07 (last_update invariant), C09 (roll-back), C13(c), C14, C17(b).
 */
#include "verif.h"

#include "rtrlib/rtr/packets.c"

#include "libc_model.h"
#ifndef STREAM_LEN
#define STREAM_LEN 8
#endif
#ifndef SENT_MAX
#define SENT_MAX 36
#endif
#define MAX_SENDS 2
#include "wire.h"
#include "table_model.h"

#define VM_MALLOC_CLASSES X(struct pfx_table, 1) X(struct spki_table, 1)
#define VM_REALLOC_CLASSES                                                                          \
	X(struct pdu_ipv4, 2) X(struct pdu_ipv4, 4) X(struct pdu_ipv4, 6) X(struct pdu_ipv6, 2)      \
	X(struct pdu_ipv6, 4) X(struct pdu_router_key, 2) X(struct pdu_router_key, 4)               \
	X(struct pdu_ipv4, 1) X(struct pdu_ipv4, 3) X(struct pdu_ipv6, 1) X(struct pdu_ipv6, 3)      \
	X(struct pdu_router_key, 1) X(struct pdu_router_key, 3)
#define VM_DIRECT
#include "alloc_model.h"

/* The SKELETON of the exchange -- which PDU type or receive failure occurs at which position -- is
 * fixed per job by the driver (-DSKEL=3,4,4,7 = Cache Response, 2 x IPv4 Prefix, End of Data);
 * every field value, flag, session id, serial, interval and the whole pre-state stay symbolic.
 * With concrete types the symbolic execution follows the receive loop's real control flow instead
 * of merging all type sequences (which did not finish: 1.2 M SSA steps for an empty response).
 * Codes 0..10 = PDU types; 20 = timeout, 21 = interrupted, 22 = transport error, 23 = connection
 * closed, 24 = malformed PDU (refused by rtr_receive_pdu), 25 = unexpected version (refused).
 */
#ifndef SKEL
#define SKEL 3, 7
#endif
static const uint8_t skel[] = {SKEL};
#define NSCRIPT (sizeof(skel) / sizeof(skel[0]))
#ifndef MPRE
#define MPRE 2 /* records in the live tables before the exchange */
#endif

/* ---- clock ---- */
static time_t env_now;
static bool env_clock_fails;
int lrtr_get_monotonic_time(time_t *seconds)
{
	uint32_t adv = ND(uint32_t, "clock.advance");

	VASSUME(adv <= 100000);
	env_now += adv;
	if (env_clock_fails && ND_BOOL("clock.fail"))
		return -1;
	*seconds = env_now;
	return 0;
}

/* ---- debug-only formatting reached from the apply path: empty ---- */
int lrtr_ip_addr_to_str(const struct lrtr_ip_addr *ip, char *str, const unsigned int len)
{
	(void)ip;
	if (len > 0)
		str[0] = 0;
	return 0;
}

/* ---- pthread cancellation points / cleanup handlers: no-ops ---- */
void __pthread_register_cancel(__pthread_unwind_buf_t *b)
{
	(void)b;
}

void __pthread_unregister_cancel(__pthread_unwind_buf_t *b)
{
	(void)b;
}

int pthread_setcancelstate(int state, int *oldstate)
{
	(void)state;
	if (oldstate)
		*oldstate = 0;
	return 0;
}

/* ---- socket under test ---- */
static struct rtr_socket S;
static struct rtr_socket OTHER; /* a different cache */
static struct tr_socket TR;
static struct pfx_table LIVE_PFX;
static struct spki_table LIVE_SPKI;
static unsigned int n_state_cb;
static enum rtr_socket_state states_seen[4];

static void state_cb(const struct rtr_socket *s, const enum rtr_socket_state st, void *a, void *b)
{
	(void)s;
	(void)a;
	(void)b;
	if (n_state_cb < 4)
		states_seen[n_state_cb] = st;
	n_state_cb++;
}

/* ---- update callbacks (C09: roll-back leaves no net change) ---- */
static struct pfx_record cb_w;
static int cb_net_w; /* added - removed for the witness record */
static unsigned int cb_calls;
static void pfx_cb(struct pfx_table *t, const struct pfx_record r, const bool added)
{
	(void)t;
	cb_calls++;
	if (tm_pfx_eq(&r, &cb_w))
		cb_net_w += added ? 1 : -1;
}

/* ---- Error Report requests (rtr_send_error_pdu_from_host replaced by a recording contract stub;
 * the real sender is verified for every argument combination in harness/rtr_errpdu_unit.c) ---- */
static unsigned int rep_calls;     /* calls of the sender */
static unsigned int rep_sent;      /* calls that put a report on the wire (the real sender drops len < 8) */
static uint32_t rep_len, rep_txt_len;
static unsigned int rep_code;
static uint8_t rep_pdu[32];        /* first bytes of the PDU handed over (host byte order) */
static bool rep_txt_ok;
static bool rep_send_fails;

int stub_err_from_host(const struct rtr_socket *s, const void *pdu, const uint32_t len, const enum pdu_error_type err,
		       const char *txt, const uint32_t txt_len)
{
	(void)s;
	rep_calls++;
	if (len != 0 && len < 8)
		return RTR_ERROR; /* the real function refuses fragments of a header (proved in rtr_errpdu_unit.c) */
	rep_sent++;
	rep_len = len;
	rep_code = err;
	rep_txt_len = txt_len;
	const uint8_t *b = pdu;

	for (unsigned int i = 0; i < 32; i++) {
		if (i >= len)
			break;
		rep_pdu[i] = b[i];
	}
	rep_txt_ok = true;
	for (unsigned int i = 0; i < 96; i++) {
		if (i >= txt_len)
			break;
		uint8_t c = (uint8_t)txt[i];

		if (!((c >= 0x20 && c < 0x7f) || (c == 0 && i + 1 == txt_len)))
			rep_txt_ok = false;
	}
	return rep_send_fails ? RTR_ERROR : RTR_SUCCESS;
}

/* ---- the script ---- */
enum sc_outcome { SC_PDU = 0, SC_WOULDBLOCK, SC_INTR, SC_TRERR, SC_CLOSED, SC_BADPDU, SC_BADVERSION, SC_NOUT };
struct sc_entry {
	uint8_t outcome;
	uint8_t type;
	uint8_t flags;
	struct pfx_record pr; /* for prefix PDUs */
	struct spki_record kr; /* for router keys */
	uint16_t session;
	uint32_t sn;
	uint32_t iv_refresh, iv_retry, iv_expire;
	uint16_t err_code;
	uint8_t ver;
};
static struct sc_entry script[NSCRIPT];
static unsigned int sc_pos;

/* rtr_get_pdu_type() is replaced by this stub: for the receive buffer just filled it returns the
 * skeleton's type as a CONSTANT (CBMC does not propagate constants through array cells, so the byte
 * read back from the buffer would be symbolic and all type sequences would be merged again); that
 * the constant equals what the real function reads -- byte 1 of the PDU -- is asserted.
 */
static const void *last_recv_buf;
static uint8_t last_recv_type;
enum pdu_type stub_get_pdu_type(const void *pdu)
{
	uint8_t in_buffer = *((const uint8_t *)pdu + 1);

	if (pdu == last_recv_buf) {
		VASSERT(in_buffer == last_recv_type, "receive contract: type byte of the delivered PDU");
		return (enum pdu_type)last_recv_type;
	}
	return (enum pdu_type)in_buffer;
}

int stub_receive_pdu(struct rtr_socket *s, void *pdu, const size_t pdu_len, const time_t timeout)
{
	(void)timeout;
	VASSERT(pdu_len >= RTR_MAX_PDU_LEN, "receive contract: caller passes a full-size buffer");
	/* sc_pos is advanced unconditionally so that it stays a constant during symbolic execution
	 * (bounds the receive loops without help from the solver)
	 */
	if (sc_pos >= NSCRIPT)
		return TR_WOULDBLOCK; /* the cache stays silent after the scripted PDUs */
	struct sc_entry *e = &script[sc_pos++];

	/* (the real function returns RTR_ERROR on a shut-down socket; rtr_sync never runs on one, and an
	 * early symbolic return here would make the delivered PDU type symbolic after the merge)
	 */
	VASSERT(s->state != RTR_SHUTDOWN, "receive contract: rtr_sync is not run on a shut-down socket");

	e->outcome = skel[sc_pos - 1] >= 20 ? (uint8_t)(skel[sc_pos - 1] - 19) : SC_PDU;
	switch (e->outcome) {
	case SC_WOULDBLOCK:
		return TR_WOULDBLOCK;
	case SC_INTR:
		return TR_INTR;
	case SC_TRERR:
		rtr_change_socket_state(s, RTR_ERROR_TRANSPORT);
		return RTR_ERROR;
	case SC_CLOSED:
		rtr_change_socket_state(s, RTR_ERROR_FATAL);
		return TR_CLOSED;
	case SC_BADPDU: /* bad length / size mismatch: report sent by rtr_receive_pdu (verified there) */
		s->has_received_pdus = true;
		rtr_change_socket_state(s, RTR_ERROR_FATAL);
		return RTR_ERROR;
	case SC_BADVERSION:
		s->has_received_pdus = true;
		return RTR_ERROR;
	default:
		break;
	}
	/* a successfully received PDU */
	e->type = skel[sc_pos - 1];
	/* live downgrade on the first PDU of a connection */
	if (!s->has_received_pdus) {
		if (s->version == 1 && e->type != ERROR && ND_BOOL("sc.downgrade"))
			s->version = 0;
		s->has_received_pdus = true;
	}
	e->ver = (uint8_t)s->version;
	struct pdu_header *h = pdu;

	h->type = e->type;
	h->reserved = 0;
	switch (e->type) {
	case IPV4_PREFIX: {
		struct pdu_ipv4 *p = pdu;
		struct pfx_record pr; /* built locally, stored by whole-struct assignment (CBMC: no union member writes through pointers) */

		p->len = sizeof(*p);
		p->flags = e->flags = ND(uint8_t, "sc.flags");
		p->prefix_len = pr.min_len = ND(uint8_t, "sc.plen");
		p->max_prefix_len = pr.max_len = ND(uint8_t, "sc.mlen");
		p->zero = ND(uint8_t, "sc.zero");
		p->prefix = ND(uint32_t, "sc.prefix");
		p->asn = pr.asn = ND(uint32_t, "sc.asn");
		pr.prefix.ver = LRTR_IPV4;
		pr.prefix.u.addr4.addr = p->prefix;
		pr.socket = s;
		e->pr = pr;
		break;
	}
	case IPV6_PREFIX: {
		struct pdu_ipv6 *p = pdu;
		struct pfx_record pr;

		p->len = sizeof(*p);
		p->flags = e->flags = ND(uint8_t, "sc.flags");
		p->prefix_len = pr.min_len = ND(uint8_t, "sc.plen");
		p->max_prefix_len = pr.max_len = ND(uint8_t, "sc.mlen");
		p->zero = 0;
		pr.prefix.ver = LRTR_IPV6;
		for (int i = 0; i < 4; i++) {
			uint32_t wv = ND(uint32_t, "sc.prefix");

			p->prefix[i] = wv;
			pr.prefix.u.addr6.addr[i] = wv;
		}
		p->asn = pr.asn = ND(uint32_t, "sc.asn");
		pr.socket = s;
		e->pr = pr;
		break;
	}
	case ROUTER_KEY: {
		struct pdu_router_key *p = pdu;

		p->len = sizeof(*p);
		p->flags = e->flags = ND(uint8_t, "sc.flags");
		p->zero = 0;
		for (unsigned int i = 0; i < SKI_SIZE; i++)
			p->ski[i] = e->kr.ski[i] = 0;
		for (unsigned int i = 0; i < SPKI_SIZE; i++)
			p->spki[i] = e->kr.spki[i] = 0;
		p->ski[0] = e->kr.ski[0] = ND(uint8_t, "sc.ski0");
		p->spki[0] = e->kr.spki[0] = ND(uint8_t, "sc.spki0");
		p->asn = e->kr.asn = ND(uint32_t, "sc.asn");
		e->kr.socket = s;
		break;
	}
	case CACHE_RESPONSE: {
		struct pdu_cache_response *p = pdu;

		p->len = sizeof(*p);
		p->session_id = e->session = ND(uint16_t, "sc.session");
		break;
	}
	case EOD: {
		struct pdu_end_of_data_v1 *p = pdu;

		p->len = s->version == 1 ? sizeof(struct pdu_end_of_data_v1) : sizeof(struct pdu_end_of_data_v0);
		p->session_id = e->session = ND(uint16_t, "sc.session");
		p->sn = e->sn = ND(uint32_t, "sc.sn");
		if (s->version == 1) {
			p->refresh_interval = e->iv_refresh = ND(uint32_t, "sc.refresh");
			p->retry_interval = e->iv_retry = ND(uint32_t, "sc.retry");
			p->expire_interval = e->iv_expire = ND(uint32_t, "sc.expire");
		}
		break;
	}
	case SERIAL_NOTIFY:
	case SERIAL_QUERY: {
		struct pdu_serial_notify *p = pdu;

		p->len = sizeof(*p);
		p->session_id = ND(uint16_t, "sc.session");
		p->sn = ND(uint32_t, "sc.sn");
		break;
	}
	case ERROR: {
		struct pdu_error *p = pdu;

		/* minimal well-formed Error Report: no encapsulated PDU, no text; any code, any version */
		p->len = 16;
		p->error_code = e->err_code = ND(uint16_t, "sc.errcode");
		p->len_enc_pdu = 0;
		*((uint32_t *)(p->rest)) = 0;
		e->ver = ND(uint8_t, "sc.errver");
		e->sn = s->version; /* negotiated version when the report arrives (after a possible live downgrade) */
		break;
	}
	default: /* CACHE_RESET, RESET_QUERY */
		h->len = 8;
		break;
	}
	h->ver = e->ver;
	/* written last and as a plain byte so that the type read back by rtr_get_pdu_type() stays a
	 * constant during symbolic execution
	 */
	((char *)pdu)[1] = (char)skel[sc_pos - 1];
	last_recv_buf = pdu;
	last_recv_type = skel[sc_pos - 1];
	return RTR_SUCCESS;
}

/* ---- helpers over the script ---- */
static bool in_range(uint32_t v, uint32_t lo, uint32_t hi)
{
	return v >= lo && v <= hi;
}

static uint32_t iv_spec(int mode, uint32_t sent, uint32_t old, uint32_t lo, uint32_t hi)
{
	switch (mode) {
	case RTR_INTERVAL_MODE_IGNORE_ANY:
		return old;
	case RTR_INTERVAL_MODE_ACCEPT_ANY:
		return sent;
	case RTR_INTERVAL_MODE_DEFAULT_MIN_MAX:
		return sent < lo ? lo : (sent > hi ? hi : sent);
	default: /* IGNORE_ON_FAILURE */
		return in_range(sent, lo, hi) ? sent : old;
	}
}

void harness(void)
{
	vm_install();
	tm_live_pfx = &LIVE_PFX;
	tm_live_spki = &LIVE_SPKI;
	w_sock = &S;
	w_send_may_fail = true;
	w_nsent = 0;

	/* ---- arbitrary socket state at entry of rtr_sync (under SInv) ---- */
	S.tr_socket = &TR;
	S.pfx_table = &LIVE_PFX;
	S.spki_table = &LIVE_SPKI;
	LIVE_PFX.update_fp = pfx_cb;
	LIVE_SPKI.update_fp = NULL;
	S.version = ND(uint8_t, "S.version");
	VASSUME(S.version <= 1);
	S.has_received_pdus = ND_BOOL("S.has_received");
	S.request_session_id = ND_BOOL("S.request_session_id");
	S.session_id = ND(uint16_t, "S.session");
	S.serial_number = ND(uint32_t, "S.serial");
	S.last_update = ND(uint32_t, "S.last_update");
	S.is_resetting = ND_BOOL("S.is_resetting");
	S.refresh_interval = ND(uint32_t, "S.refresh");
	S.retry_interval = ND(uint32_t, "S.retry");
	S.expire_interval = ND(uint32_t, "S.expire");
	uint8_t mode = ND(uint8_t, "S.iv_mode");

	VASSUME(mode <= RTR_INTERVAL_MODE_IGNORE_ON_FAILURE);
	S.iv_mode = (enum rtr_interval_mode)mode;
	S.state = RTR_SYNC;
	S.connection_state_fp = state_cb;
	S.connection_state_fp_param_config = NULL;
	S.connection_state_fp_param_group = NULL;
	env_now = ND(uint32_t, "clock.start");
	VASSUME(env_now >= 1);
	/* SInv: see DESIGN.md (C05/C07) */
	VASSUME(!S.is_resetting || (S.request_session_id && S.last_update == 0));
	VASSUME(S.request_session_id || S.last_update != 0);
	VASSUME(S.last_update <= env_now);

	/* ---- arbitrary table contents: MPRE prefix records and 1 key of this or another cache ---- */
	for (unsigned int i = 0; i < TM_CAP; i++) {
		tm_pfx0.used[i] = tm_pfx1.used[i] = false;
		tm_spki0.used[i] = tm_spki1.used[i] = false;
	}
	for (unsigned int i = 0; i < MPRE; i++) {
		struct tm_prec r;

		tm_pfx0.used[i] = ND_BOOL("pre.used");
		r.asn = ND(uint32_t, "pre.asn");
		r.ver = LRTR_IPV4;
		r.a[0] = ND(uint32_t, "pre.prefix");
		r.a[1] = r.a[2] = r.a[3] = 0;
		r.min_len = ND(uint8_t, "pre.plen");
		r.max_len = ND(uint8_t, "pre.mlen");
		r.socket = ND_BOOL("pre.mine") ? &S : &OTHER;
		tm_pfx0.rec[i] = r;
		for (unsigned int j = 0; j < i; j++)
			VASSUME(!(tm_pfx0.used[i] && tm_pfx0.used[j] && tm_prec_eq(&r, &tm_pfx0.rec[j])));
	}
	{
		struct tm_krec k;

		tm_spki0.used[0] = ND_BOOL("prek.used");
		k.ski0 = ND(uint8_t, "prek.ski0");
		k.spki0 = ND(uint8_t, "prek.spki0");
		k.asn = ND(uint32_t, "prek.asn");
		k.socket = ND_BOOL("prek.mine") ? &S : &OTHER;
		tm_spki0.rec[0] = k;
	}
	const bool had_data = tm_pfx_count_sock(0, &S) + tm_spki_count_sock(0, &S) > 0;

	/* SInv2 (C07): records of this cache exist only while last_update is set */
	VASSUME(!had_data || S.last_update != 0);
#ifdef NO_TABLE_FAIL
	tm_fail_enabled = false;
#else
	tm_fail_enabled = ND_BOOL("table.may_fail");
#endif

	/* witnesses: two arbitrary records of THIS cache, one of the OTHER cache */
	struct pfx_record w1, w2, wo;

	w1.asn = ND(uint32_t, "w1.asn");
	w1.prefix.ver = LRTR_IPV4;
	w1.prefix.u.addr4.addr = ND(uint32_t, "w1.prefix");
	w1.min_len = ND(uint8_t, "w1.plen");
	w1.max_len = ND(uint8_t, "w1.mlen");
	w1.socket = &S;
	w2 = w1;
	w2.asn = ND(uint32_t, "w2.asn");
	w2.prefix.u.addr4.addr = ND(uint32_t, "w2.prefix");
	w2.min_len = ND(uint8_t, "w2.plen");
	w2.max_len = ND(uint8_t, "w2.mlen");
	wo = w1;
	wo.asn = ND(uint32_t, "wo.asn");
	wo.prefix.u.addr4.addr = ND(uint32_t, "wo.prefix");
	wo.socket = &OTHER;
	struct spki_record wk;

	for (unsigned int i = 0; i < SKI_SIZE; i++)
		wk.ski[i] = 0;
	for (unsigned int i = 0; i < SPKI_SIZE; i++)
		wk.spki[i] = 0;
	wk.ski[0] = ND(uint8_t, "wk.ski0");
	wk.spki[0] = ND(uint8_t, "wk.spki0");
	wk.asn = ND(uint32_t, "wk.asn");
	wk.socket = &S;

	const unsigned int pre_w1 = tm_pfx_count(0, &w1), pre_w2 = tm_pfx_count(0, &w2), pre_wo = tm_pfx_count(0, &wo);
	const unsigned int pre_wk = tm_spki_count(0, &wk);
	const unsigned int pre_other_p = tm_pfx_count_sock(0, &OTHER), pre_other_k = tm_spki_count_sock(0, &OTHER);
	const struct rtr_socket S0 = S;
	const struct tm_pfx_tab pre_pfx = tm_pfx0;
	const struct tm_spki_tab pre_spki = tm_spki0;

	cb_w = w1;
	cb_net_w = 0;
	cb_calls = 0;
	sc_pos = 0;
	tm_live_pfx_writes = tm_live_spki_writes = 0;

#ifdef ALLOC_FAIL
	/* C18: the k-th allocation request of the exchange fails (k symbolic, 0 = none): PDU stores, shadow tables */
	vm_requests = 0;
	vm_fail_at = ND(uint8_t, "alloc.fail_at");
#endif
	/* ================= the real code ================= */
	int rc = rtr_sync(&S);
	/* ================================================= */

	const unsigned int post_w1 = tm_pfx_count(0, &w1), post_w2 = tm_pfx_count(0, &w2), post_wo = tm_pfx_count(0, &wo);
	const unsigned int post_wk = tm_spki_count(0, &wk);

	VASSERT(rc == RTR_SUCCESS || rc == RTR_ERROR, "sync: returns RTR_SUCCESS or RTR_ERROR");
	/* records of other caches are never altered */
	VASSERT(post_wo == pre_wo && tm_pfx_count_sock(0, &OTHER) == pre_other_p && tm_spki_count_sock(0, &OTHER) == pre_other_k,
		"C03: records learned from other caches are never altered");
	VASSERT(!S.is_resetting || (S.request_session_id && S.last_update == 0 && rc == RTR_ERROR),
		"sync: SInv preserved: a pending reload flag implies no session and no data timestamp");
	VASSERT(S.request_session_id || S.last_update != 0, "sync: SInv preserved: an established session implies a data timestamp");
	VASSERT(S.version <= S0.version, "C13: version never increases");
	VASSERT(vm_live == 0, "C18 sync: every block obtained during the exchange is released again");
#ifdef ASSERT_C18
	if (vm_fail_at && vm_requests >= vm_fail_at)
		VASSERT(rc == RTR_ERROR, "C18 sync: an exchange in which an allocation failed reports an error");
#endif

	/* ---- locate the structure of the script as the real code must have seen it ---- */
	/* first non-Serial-Notify PDU = opener; then payload until EOD */
	unsigned int i0 = 0;
	bool opener_ok = false;

	for (unsigned int i = 0; i < NSCRIPT; i++) {
		if (i < sc_pos && i == i0 && script[i].outcome == SC_PDU && script[i].type == SERIAL_NOTIFY)
			i0 = i + 1;
	}
	if (i0 < sc_pos && script[i0].outcome == SC_PDU && script[i0].type == CACHE_RESPONSE)
		opener_ok = true;
	const bool session_mismatch = opener_ok && !S0.request_session_id && script[i0].session != S0.session_id;
	/* reload mode as decided by the Cache Response handler */
	const bool reload = opener_ok && (S0.is_resetting || (S0.request_session_id && S0.last_update != 0));
	const uint32_t sess_expected = opener_ok && S0.request_session_id ? script[i0].session : S0.session_id;

	/* walk the payload: expected multiplicities of the witnesses if everything is applied in order */
	unsigned int e1 = reload ? 0 : pre_w1, e2 = reload ? 0 : pre_w2, ek = reload ? 0 : pre_wk;
	bool clean = opener_ok && !session_mismatch; /* no violation seen so far */
	bool complete = false;
	unsigned int eod = 0;

	for (unsigned int i = 0; i < NSCRIPT; i++) {
		if (i <= i0 || i >= sc_pos || !clean || complete)
			continue;
		struct sc_entry *e = &script[i];

		if (e->outcome != SC_PDU) {
			clean = false;
			continue;
		}
		if (e->type == SERIAL_NOTIFY)
			continue;
		if (e->type == IPV4_PREFIX || e->type == IPV6_PREFIX) {
			if (e->flags > 1) {
				clean = false;
				continue;
			}
			if (tm_pfx_eq(&e->pr, &w1)) {
				if ((e->flags == 1) == (e1 == 1))
					clean = false; /* duplicate announcement / unknown withdrawal */
				else
					e1 = e->flags;
			}
			if (tm_pfx_eq(&e->pr, &w2)) {
				if ((e->flags == 1) == (e2 == 1))
					clean = false;
				else
					e2 = e->flags;
			}
		} else if (e->type == ROUTER_KEY) {
			if (e->flags > 1) {
				clean = false;
				continue;
			}
			if (tm_spki_eq(&e->kr, &wk)) {
				if ((e->flags == 1) == (ek == 1))
					clean = false;
				else
					ek = e->flags;
			}
		} else if (e->type == EOD) {
			if (e->session != sess_expected)
				clean = false;
			else {
				complete = true;
				eod = i;
			}
		} else {
			clean = false; /* Error Report, Cache Reset, unexpected PDU */
		}
	}
	/* NOTE: 'clean' above only tracks violations that involve the witnesses; a response can also be
	 * invalid because of records other than w1/w2/wk.  Hence implications are stated in the sound
	 * direction only: success => effects as computed; the witnesses are universally quantified.
	 */
	if (rc == RTR_SUCCESS) {
#ifdef ASSERT_C03
		VASSERT(opener_ok, "C03: success only after a Cache Response");
		VASSERT(complete && clean, "C03: success only when the response is valid for every record and ends with End of Data");
		if (complete && clean) {
			VASSERT(post_w1 == e1 && post_w2 == e2, "C03: after success the prefix records equal previous + announced - withdrawn (or exactly the announced set on reload)");
			VASSERT(post_wk == ek, "C03: after success the router keys equal previous + announced - withdrawn (or exactly the announced set on reload)");
			VASSERT(S.serial_number == script[eod].sn, "C03: stored serial is the one of End of Data");
		}
		VASSERT(!S.request_session_id && S.session_id == sess_expected, "C05: session established by a completed response");
		VASSERT(cb_net_w == (int)post_w1 - (int)pre_w1, "C09: callbacks during a response equal the net change of the table");
#endif
#ifdef ASSERT_C05
		VASSERT(!session_mismatch, "C05: a Cache Response with a foreign session id never succeeds");
		VASSERT(!S.request_session_id && S.session_id == sess_expected, "C05: session established by a completed response");
		if (complete)
			VASSERT(S.serial_number == script[eod].sn, "C05: serial of the completed response stored");
#endif
#ifdef ASSERT_C07
		VASSERT(S.last_update == env_now && S.last_update != 0, "C07: successful synchronisation stamps last_update");
#endif
#ifdef ASSERT_C17
		if (complete) {
			struct sc_entry *e = &script[eod];

			if (S.version == 1) {
				VASSERT(S.refresh_interval == iv_spec(S0.iv_mode, e->iv_refresh, S0.refresh_interval, 1, 86400),
					"C17: refresh interval after End of Data is what the interval mode prescribes");
				VASSERT(S.retry_interval == iv_spec(S0.iv_mode, e->iv_retry, S0.retry_interval, 1, 7200),
					"C17: retry interval after End of Data is what the interval mode prescribes");
				VASSERT(S.expire_interval == iv_spec(S0.iv_mode, e->iv_expire, S0.expire_interval, 600, 172800),
					"C17: expire interval after End of Data is what the interval mode prescribes");
			} else {
				VASSERT(S.refresh_interval == S0.refresh_interval && S.retry_interval == S0.retry_interval &&
						S.expire_interval == S0.expire_interval,
					"C17: version-0 exchanges never change the intervals");
			}
		}
#endif
	} else {
#if defined(ASSERT_C03) || defined(ASSERT_C18)
		/* failure: either untouched and same next query, or everything of this cache gone and Reset Query next */
		bool untouched1 = post_w1 == pre_w1 && post_w2 == pre_w2 && post_wk == pre_wk &&
				  S.serial_number == S0.serial_number && S.request_session_id == S0.request_session_id &&
				  (S0.request_session_id || S.session_id == S0.session_id);
		bool purged1 = post_w1 == 0 && post_w2 == 0 && post_wk == 0 && S.request_session_id &&
			       tm_pfx_count_sock(0, &S) == 0 && tm_spki_count_sock(0, &S) == 0;

		VASSERT(untouched1 || purged1,
			"C03: a failed response leaves the cache's records and next query exactly as before, or removes all of them and forces a Reset Query");
		VASSERT(cb_net_w == (int)post_w1 - (int)pre_w1, "C09: callbacks during a failed response equal the net change (zero, or the purge)");
#endif
#ifdef ASSERT_C05
		if (S0.request_session_id)
			VASSERT(S.request_session_id, "C05: no session is established by a failed response");
		else
			VASSERT(S.request_session_id || (S.session_id == S0.session_id && S.serial_number == S0.serial_number),
				"C05: a failed response leaves session and serial untouched (or drops the session)");
#endif
#ifdef ASSERT_C07
		VASSERT(S.last_update == S0.last_update || tm_pfx_count_sock(0, &S) + tm_spki_count_sock(0, &S) == 0,
			"C07: a failed response keeps the time of the last success while the cache's records remain");
#endif
#ifdef ASSERT_C17
		(void)0;
#endif
	}
#ifdef ASSERT_C07
	VASSERT(tm_pfx_count_sock(0, &S) + tm_spki_count_sock(0, &S) == 0 || S.last_update != 0,
		"C07: records of the cache exist only while last_update is set (else they could never expire)");
#endif
#ifdef ASSERT_C05
	if (session_mismatch)
		VASSERT(rc == RTR_ERROR && post_w1 == pre_w1 && post_wk == pre_wk && S.serial_number == S0.serial_number,
			"C05: a Cache Response whose session differs from the established one fails and applies nothing");
#endif
#ifdef ASSERT_C06
	/* Reduction of C06 (see DESIGN.md): readers hold the table lock for a whole query, so they can only
	 * observe the live tables between write sections.  During a reload of a cache that already supplied
	 * data the live tables must therefore be written exactly once each -- by the swap that publishes
	 * the complete new set -- and not at all when the reload fails.
	 */
	if (reload && had_data && !tm_fail_enabled) {
		if (rc == RTR_SUCCESS) {
			VASSERT(tm_live_pfx_writes == 1 && tm_live_spki_writes == 1,
				"C06: during a successful reload the live tables change exactly once each (the swap)");
			VASSERT(tm_swap_seen_pfx && tm_swap_seen_spki, "C06: the one change is the swap of the complete shadow table");
		} else {
			VASSERT(tm_live_pfx_writes == 0 && tm_live_spki_writes == 0,
				"C06: a failed reload never touches the live tables (readers keep the complete old set)");
		}
	}
	if (reload && rc == RTR_SUCCESS) {
		/* the published set is complete: exactly the announced records of this cache (e1/e2/ek) */
		VASSERT(post_w1 == e1 && post_w2 == e2 && post_wk == ek, "C06: the swapped-in tables hold the complete new set");
	}
#endif
#ifdef ASSERT_C13
	/* (c) hang-up before any session: downgrade and reconnect at once */
	if (sc_pos >= 1 && script[0].outcome == SC_CLOSED) {
		if (S0.request_session_id && S0.version > 0)
			VASSERT(rc == RTR_ERROR && S.version == S0.version - 1 && S.state == RTR_FAST_RECONNECT,
				"C13: connection closed before any session lowers the version by one and reconnects at once");
		else
			VASSERT(rc == RTR_ERROR && S.version == S0.version && S.state == RTR_ERROR_FATAL,
				"C13: connection closed with a session (or at the lowest version) is an ordinary failure");
	}
	/* an Unsupported-Version report with a lower supported version: downgrade, reconnect at once */
	if (i0 < sc_pos && script[i0].outcome == SC_PDU && script[i0].type == ERROR && i0 + 1 == sc_pos) {
		const unsigned int v_then = script[i0].sn;

		if (script[i0].err_code == UNSUPPORTED_PROTOCOL_VER && script[i0].ver < v_then)
			VASSERT(rc == RTR_ERROR && S.version == script[i0].ver && S.state == RTR_FAST_RECONNECT,
				"C13: Unsupported-Version report with a lower supported version lowers the version and reconnects at once");
		if (script[i0].err_code == UNSUPPORTED_PROTOCOL_VER && script[i0].ver >= v_then)
			VASSERT(rc == RTR_ERROR && S.version == v_then && S.state == RTR_ERROR_FATAL,
				"C13: Unsupported-Version report without a lower version is fatal");
		if (script[i0].err_code != UNSUPPORTED_PROTOCOL_VER)
			VASSERT(rc == RTR_ERROR && S.version == v_then, "C13: other Error Reports never change the version");
	}
#endif
#ifdef ASSERT_C14
	VASSERT(w_nsent == 0, "C14 sync: nothing but Error Reports is sent during a response");
	VASSERT(rep_sent <= 1, "C14 sync: at most one Error Report per failed response");
	if (rep_sent == 1) {
		VASSERT(rc == RTR_ERROR, "C14 sync: an Error Report is only sent for a failed response");
		VASSERT(rep_txt_ok, "C14 sync: error text is printable text, at most NUL-terminated (no uninitialised bytes)");
		VASSERT(rep_len == 0 || rep_len == 8 || (rep_len == ((struct pdu_header *)rep_pdu)->len && rep_len <= RTR_MAX_PDU_LEN),
			"C14 sync: the encapsulated copy is the offending PDU's header or exactly the offending PDU (its own length)");
	}
	VASSERT(rep_calls == rep_sent, "C14 sync: every detected violation is actually reported (the sender is not called with an empty PDU, which it drops)");
	/* violation classes that are decided by the structure of the script */
	if (i0 < sc_pos && script[i0].outcome == SC_PDU && script[i0].type != CACHE_RESPONSE && script[i0].type != CACHE_RESET &&
	    script[i0].type != ERROR && script[i0].type != SERIAL_NOTIFY) {
		VASSERT(rc == RTR_ERROR && rep_sent == 1 && rep_code == CORRUPT_DATA && rep_len == 8 && rep_pdu[1] == script[i0].type,
			"C14 sync: an unexpected PDU instead of a Cache Response is reported (Corrupt Data, header echoed)");
	}
	if (session_mismatch)
		VASSERT(rc == RTR_ERROR && rep_sent == 1 && rep_code == CORRUPT_DATA,
			"C14 sync: a Cache Response with a foreign session id is reported (Corrupt Data)");
	if (i0 < sc_pos && script[i0].outcome == SC_PDU && script[i0].type == ERROR)
		VASSERT(rep_calls == 0, "C14 sync: no Error Report in reply to an Error Report");
	/* exactly one payload PDU between a valid Cache Response and a valid End of Data: the violation
	 * class is decided by that PDU and the table before the response
	 */
	if (opener_ok && !session_mismatch && i0 + 3 == sc_pos && script[i0 + 1].outcome == SC_PDU &&
	    script[i0 + 2].outcome == SC_PDU && script[i0 + 2].type == EOD && script[i0 + 2].session == sess_expected &&
	    !tm_fail_enabled) {
		const struct sc_entry *e = &script[i0 + 1];

		if (e->type == IPV4_PREFIX || e->type == IPV6_PREFIX) {
			struct tm_prec m = tm_p(&e->pr);
			bool present = false;

			for (unsigned int i = 0; i < TM_CAP; i++)
				if (!reload && pre_pfx.used[i] && tm_prec_eq(&pre_pfx.rec[i], &m))
					present = true;
			unsigned int width = e->type == IPV4_PREFIX ? 32 : 128;
			bool bad_len = e->pr.min_len > width || e->pr.max_len > width || e->pr.min_len > e->pr.max_len;
			unsigned int want = (e->flags > 1 || bad_len) ? CORRUPT_DATA :
					    (e->flags == 1 && present) ? DUPLICATE_ANNOUNCEMENT :
					    (e->flags == 0 && !present) ? WITHDRAWAL_OF_UNKNOWN_RECORD : 99;
			if (want == 99) {
				VASSERT(rc == RTR_SUCCESS && rep_calls == 0, "C14 sync: a valid single-PDU response succeeds without any report");
			} else {
				const struct pdu_ipv4 *echo = (const struct pdu_ipv4 *)rep_pdu;

				VASSERT(rc == RTR_ERROR && rep_sent == 1 && rep_code == want,
					"C14 sync: invalid flags / duplicate announcement / unknown withdrawal are reported with their own codes");
				VASSERT(rep_len == (e->type == IPV4_PREFIX ? 20u : 32u) && echo->type == e->type && echo->flags == e->flags &&
						echo->prefix_len == e->pr.min_len && echo->max_prefix_len == e->pr.max_len,
					"C14 sync: the report encapsulates the offending prefix PDU");
			}
		}
		if (e->type == ROUTER_KEY) {
			struct tm_krec m = tm_k(&e->kr);
			bool present = false;

			for (unsigned int i = 0; i < TM_CAP; i++)
				if (!reload && pre_spki.used[i] && tm_krec_eq(&pre_spki.rec[i], &m))
					present = true;
			unsigned int want = e->flags > 1 ? CORRUPT_DATA :
					    (e->flags == 1 && present) ? DUPLICATE_ANNOUNCEMENT :
					    (e->flags == 0 && !present) ? WITHDRAWAL_OF_UNKNOWN_RECORD : 99;
			if (want == 99)
				VASSERT(rc == RTR_SUCCESS && rep_calls == 0, "C14 sync: a valid single-key response succeeds without any report");
			else
				VASSERT(rc == RTR_ERROR && rep_sent == 1 && rep_code == want && rep_len == 123 && rep_pdu[1] == ROUTER_KEY,
					"C14 sync: invalid flags / duplicate / unknown router key are reported with their own codes and the PDU");
		}
	}
#endif
	VWITNESS("sync end");
}
