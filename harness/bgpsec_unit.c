/*
 * C11 / C12: the REAL rtr_bgpsec_validate_as_path() and rtr_bgpsec_generate_signature()
 * (bgpsec.c + bgpsec_utils.c) with OpenSSL stubbed AT ITS API:
 *   SHA256_Init/Update/Final  record the exact bytes hashed; the "digest" is an injective tag of the call
 *   d2i_EC_PUBKEY / d2i_ECPrivateKey / EC_KEY_check_key   symbolic success, key identified by its bytes
 *   ECDSA_verify(digest, sig, key)  answers from a symbolic table ver[hop][key] and records its arguments
 *   ECDSA_size / ECDSA_sign  produce a symbolic signature of symbolic length <= size
 * Oracle: an independent serialiser of RFC 8205 section 4.2 written here from the RFC: the bytes handed
 * to SHA-256 for hop i must equal the reference sequence; every ECDSA_verify uses hop i's signature and a
 * key registered for hop i's SKI AND AS; VALID <=> every hop has such a key that verifies.
 *
 * Structure fixed per job: NH hops, SL bytes per signature, NLRI_BITS; every field value symbolic.
 * Router-key lookups go to a 3-entry table model (the real table is C10's subject).
 */
#include "verif.h"

#include <openssl/x509.h>
#include <stdlib.h>
#include <string.h>

#include "rtrlib/bgpsec/bgpsec_private.h"
#include "rtrlib/bgpsec/bgpsec_utils_private.h"
#include "rtrlib/spki/spkitable_private.h"

#ifndef NH
#define NH 2
#endif
#ifndef SL
#define SL 3
#endif
#ifndef NLRI_BITS
#define NLRI_BITS 24
#endif
#define NLRI_BYTES ((NLRI_BITS + 7) / 8)
#define NKEYS 3
#define MAXSTREAM (4 + NH * (22 + SL + 6) + 5 + NLRI_BYTES + 8)

void lrtr_dbg(const char *frmt, ...)
{
	(void)frmt;
}

/* debug formatting of an SKI (only reached on the key-not-found path): no output needed */
int sprintf(char *str, const char *format, ...)
{
	(void)str;
	(void)format;
	return 3;
}

/* ---- allocator: plain malloc (sizes are constants per job) ---- */
void *lrtr_malloc(size_t size)
{
	void *p = malloc(size);

	VASSUME(p != NULL);
	return p;
}

void *lrtr_calloc(size_t n, size_t size)
{
	uint8_t *p = malloc(n * size);

	VASSUME(p != NULL);
	for (size_t i = 0; i < MAXSTREAM + 64; i++) {
		if (i >= n * size)
			break;
		p[i] = 0;
	}
	return p;
}

void lrtr_free(void *p)
{
	free(p);
}

void *lrtr_realloc(void *p, size_t size)
{
	(void)p;
	return malloc(size);
}

/* ---- router-key table model ---- */
static struct spki_record KEYS[NKEYS];
static bool key_used[NKEYS];

static bool ski_eq(const uint8_t *a, const uint8_t *b)
{
	for (unsigned int i = 0; i < SKI_SIZE; i++)
		if (a[i] != b[i])
			return false;
	return true;
}

static int lookup(uint32_t asn, bool use_asn, uint8_t *ski, struct spki_record **result, unsigned int *n)
{
	struct spki_record *r = malloc(sizeof(struct spki_record) * NKEYS);
	unsigned int c = 0;

	VASSUME(r != NULL);
	for (unsigned int i = 0; i < NKEYS; i++) {
		if (key_used[i] && ski_eq(KEYS[i].ski, ski) && (!use_asn || KEYS[i].asn == asn))
			r[c++] = KEYS[i];
	}
	*n = c;
	if (c == 0) {
		free(r);
		r = NULL;
	}
	*result = r;
	return SPKI_SUCCESS;
}

int spki_table_search_by_ski(struct spki_table *t, uint8_t *ski, struct spki_record **result, unsigned int *n)
{
	(void)t;
	return lookup(0, false, ski, result, n);
}

int spki_table_get_all(struct spki_table *t, uint32_t asn, uint8_t *ski, struct spki_record **result, unsigned int *n)
{
	(void)t;
	return lookup(asn, true, ski, result, n);
}

/* ---- OpenSSL stubs ---- */
static uint8_t hashed[NH + 1][MAXSTREAM];
static unsigned int hashed_len[NH + 1];
static unsigned int n_hash;
static unsigned int cur_len;

int SHA256_Init(SHA256_CTX *c)
{
	(void)c;
	cur_len = 0;
	return 1;
}

int SHA256_Update(SHA256_CTX *c, const void *data, size_t len)
{
	const uint8_t *d = data;

	(void)c;
	VASSERT(n_hash <= NH, "hashing: at most one digest per hop");
	for (unsigned int i = 0; i < MAXSTREAM; i++) {
		if (i >= len)
			break;
		if (n_hash <= NH)
			hashed[n_hash][cur_len + i] = d[i];
	}
	VASSERT(len <= MAXSTREAM, "hashing: length within the stream");
	cur_len += len;
	return 1;
}

int SHA256_Final(unsigned char *md, SHA256_CTX *c)
{
	(void)c;
	for (unsigned int i = 0; i < SHA256_DIGEST_LENGTH; i++)
		md[i] = 0;
	md[0] = (unsigned char)(n_hash + 1); /* injective tag of the digest */
	if (n_hash <= NH)
		hashed_len[n_hash] = cur_len;
	n_hash++;
	return 1;
}

static char keyobj[NKEYS + 1];
static bool d2i_fails, check_fails;

EC_KEY *d2i_EC_PUBKEY(EC_KEY **a, const unsigned char **pp, long length)
{
	(void)a;
	VASSERT(length == SPKI_SIZE, "public key parsed with the SPKI length");
	if (d2i_fails)
		return NULL;
	uint8_t id = (*pp)[0]; /* the harness stores the key index in byte 0 of the SPKI */

	VASSUME(id < NKEYS);
	return (EC_KEY *)&keyobj[id];
}

EC_KEY *d2i_ECPrivateKey(EC_KEY **a, const unsigned char **pp, long length)
{
	(void)a;
	(void)pp;
	VASSERT(length == 121, "private key parsed with the private key length");
	if (d2i_fails)
		return NULL;
	return (EC_KEY *)&keyobj[NKEYS];
}

int EC_KEY_check_key(const EC_KEY *k)
{
	(void)k;
	return check_fails ? 0 : 1;
}

void EC_KEY_free(EC_KEY *k)
{
	(void)k;
}

static int ver[NH][NKEYS];           /* symbolic verdicts of ECDSA per (hop, key) */
static unsigned int n_verify;
static bool verify_args_ok = true;
static bool verify_key_ok = true;
static const struct rtr_signature_seg *SIGS_of_hop[NH];
static uint32_t asn_of_hop[NH];

int ECDSA_verify(int type, const unsigned char *dgst, int dgstlen, const unsigned char *sig, int siglen, EC_KEY *eckey)
{
	(void)type;
	n_verify++;
	unsigned int hop = dgst[0] - 1u;
	unsigned int key = (unsigned int)((char *)eckey - keyobj);

	if (dgstlen != SHA256_DIGEST_LENGTH || hop >= NH || key >= NKEYS) {
		verify_args_ok = false;
		return -1;
	}
	if (sig != SIGS_of_hop[hop]->signature || siglen != (int)SIGS_of_hop[hop]->sig_len)
		verify_args_ok = false;
	/* the key must be registered for this hop's SKI and AS */
	if (!key_used[key] || !ski_eq(KEYS[key].ski, SIGS_of_hop[hop]->ski) || KEYS[key].asn != asn_of_hop[hop])
		verify_key_ok = false;
	return ver[hop][key];
}

static int ecdsa_size_ret;
int ECDSA_size(const EC_KEY *k)
{
	(void)k;
	return ecdsa_size_ret;
}

static unsigned int sign_len;
static uint8_t sign_bytes[8];
static unsigned int n_sign;
static uint8_t sign_digest_tag;
int ECDSA_sign(int type, const unsigned char *dgst, int dgstlen, unsigned char *sig, unsigned int *siglen, EC_KEY *eckey)
{
	(void)type;
	(void)eckey;
	n_sign++;
	sign_digest_tag = dgst[0];
	VASSERT(dgstlen == SHA256_DIGEST_LENGTH, "signing: SHA-256 digest length");
	for (unsigned int i = 0; i < 8; i++) {
		if (i >= sign_len)
			break;
		sig[i] = sign_bytes[i];
	}
	*siglen = sign_len;
	return sign_len > 0;
}

/* ---- the path under test ---- */
static struct rtr_bgpsec D;
static struct rtr_bgpsec_nlri NL;
static uint8_t nlri_bytes[NLRI_BYTES + 1];
static struct rtr_secure_path_seg PATH[NH + 1];
static struct rtr_signature_seg SIG[NH];
static uint8_t sigbytes[NH][SL + 1];
static struct spki_table *TABLE = (struct spki_table *)&keyobj; /* opaque, only passed through */

static void arbitrary_path(unsigned int npath, unsigned int nsigs)
{
	D.alg = ND(uint8_t, "alg");
	D.afi = ND(uint16_t, "afi");
	D.safi = ND(uint8_t, "safi");
	D.my_as = ND(uint32_t, "my_as");
	D.target_as = ND(uint32_t, "target_as");
	D.path_len = (uint8_t)npath;
	D.sigs_len = (uint16_t)nsigs;
	NL.afi = D.afi; /* the two AFI/SAFI copies of the API are kept equal (see DESIGN.md, C11 note) */
	NL.safi = D.safi;
	NL.nlri_len = NLRI_BITS;
	NL.nlri = nlri_bytes;
	for (unsigned int i = 0; i < NLRI_BYTES; i++)
		nlri_bytes[i] = ND(uint8_t, "nlri");
	D.nlri = &NL;
	for (unsigned int i = 0; i < NH + 1; i++) {
		if (i >= npath)
			break;
		PATH[i].pcount = ND(uint8_t, "pcount");
		PATH[i].flags = ND(uint8_t, "flags");
		PATH[i].asn = ND(uint32_t, "asn");
		PATH[i].next = (i + 1 < npath) ? &PATH[i + 1] : NULL;
	}
	D.path = npath ? &PATH[0] : NULL;
	for (unsigned int i = 0; i < NH; i++) {
		if (i >= nsigs)
			break;
		for (unsigned int k = 0; k < SKI_SIZE; k++)
			SIG[i].ski[k] = 0;
		SIG[i].ski[0] = ND(uint8_t, "ski0");
		SIG[i].ski[19] = ND(uint8_t, "ski19");
		SIG[i].sig_len = SL;
		SIG[i].signature = sigbytes[i];
		for (unsigned int k = 0; k < SL; k++)
			sigbytes[i][k] = ND(uint8_t, "sig");
		SIG[i].next = (i + 1 < nsigs) ? &SIG[i + 1] : NULL;
		SIGS_of_hop[i] = &SIG[i];
		asn_of_hop[i] = PATH[i].asn;
	}
	D.sigs = nsigs ? &SIG[0] : NULL;
	for (unsigned int k = 0; k < NKEYS; k++) {
		key_used[k] = ND_BOOL("key.used");
		for (unsigned int b = 0; b < SKI_SIZE; b++)
			KEYS[k].ski[b] = 0;
		KEYS[k].ski[0] = ND(uint8_t, "key.ski0");
		KEYS[k].ski[19] = ND(uint8_t, "key.ski19");
		KEYS[k].asn = ND(uint32_t, "key.asn");
		for (unsigned int b = 0; b < SPKI_SIZE; b++)
			KEYS[k].spki[b] = 0;
		KEYS[k].spki[0] = (uint8_t)k; /* key identity for the d2i stub */
		KEYS[k].socket = NULL;
	}
}

/* RFC 8205 section 4.2: sequence of octets to be hashed for the signature of hop i (0 = most recent),
 * over a path with nsigs signature segments of which segments i+1.. are included
 */
static unsigned int ref_bytes(uint8_t *o, unsigned int i, uint32_t target, unsigned int npath, unsigned int nsigs, unsigned int first_sig)
{
	unsigned int n = 0;

	o[n++] = target >> 24;
	o[n++] = target >> 16;
	o[n++] = target >> 8;
	o[n++] = target;
	for (unsigned int j = i; j < NH + 1; j++) {
		if (j >= npath)
			break;
		unsigned int sj = j + first_sig; /* signature segment that precedes secure path segment j */

		if (sj < nsigs && sj < NH) {
			for (unsigned int k = 0; k < SKI_SIZE; k++)
				o[n++] = SIG[sj].ski[k];
			o[n++] = SIG[sj].sig_len >> 8;
			o[n++] = SIG[sj].sig_len & 0xff;
			for (unsigned int k = 0; k < SL; k++)
				o[n++] = sigbytes[sj][k];
		}
		o[n++] = PATH[j].pcount;
		o[n++] = PATH[j].flags;
		o[n++] = PATH[j].asn >> 24;
		o[n++] = PATH[j].asn >> 16;
		o[n++] = PATH[j].asn >> 8;
		o[n++] = PATH[j].asn;
	}
	o[n++] = D.alg;
	o[n++] = D.afi >> 8;
	o[n++] = D.afi & 0xff;
	o[n++] = D.safi;
	o[n++] = NLRI_BITS;
	for (unsigned int k = 0; k < NLRI_BYTES; k++)
		o[n++] = nlri_bytes[k];
	return n;
}

void harness_validate(void)
{
	arbitrary_path(NH, NH);
	for (unsigned int h = 0; h < NH; h++)
		for (unsigned int k = 0; k < NKEYS; k++) {
			int v = ND(int, "ver");

			VASSUME(v == 1 || v == 0 || v == -1);
			ver[h][k] = v;
		}
	d2i_fails = ND_BOOL("d2i.fails");
	check_fails = ND_BOOL("check.fails");
	bool wrong_count = ND_BOOL("wrong.count");

	if (wrong_count)
		D.sigs_len = NH + 1;
	n_hash = n_verify = 0;
#ifdef KNOWN_F7_EXCLUDED
	/* known finding F7 (keys are looked up by SKI only): exclude exactly its input class -- a router
	 * key that carries a hop's SKI but is registered for a different AS
	 */
	for (unsigned int h = 0; h < NH; h++)
		for (unsigned int k = 0; k < NKEYS; k++)
			VASSUME(!(key_used[k] && ski_eq(KEYS[k].ski, SIG[h].ski) && KEYS[k].asn != PATH[h].asn));
#endif

	int rc = rtr_bgpsec_validate_as_path(&D, TABLE);

	/* ---- specific codes ---- */
	bool alg_ok = D.alg == RTR_BGPSEC_ALGORITHM_SUITE_1;
	bool afi_ok = NL.afi == 1 || NL.afi == 2;
	bool all_have_key = true, all_verify = true;

	for (unsigned int h = 0; h < NH; h++) {
		bool have = false, good = false;

		for (unsigned int k = 0; k < NKEYS; k++) {
			if (key_used[k] && ski_eq(KEYS[k].ski, SIG[h].ski) && KEYS[k].asn == PATH[h].asn) {
				have = true;
				if (ver[h][k] == 1)
					good = true;
			}
		}
		if (!have)
			all_have_key = false;
		if (!good)
			all_verify = false;
	}
	if (wrong_count) {
		VASSERT(rc == RTR_BGPSEC_WRONG_SEGMENT_COUNT, "C11: unequal segment counts are reported with their own code");
	} else if (!alg_ok) {
		VASSERT(rc == RTR_BGPSEC_UNSUPPORTED_ALGORITHM_SUITE, "C11: unsupported algorithm suite is reported with its own code");
	} else if (!afi_ok) {
		VASSERT(rc == RTR_BGPSEC_UNSUPPORTED_AFI, "C11: unsupported AFI is reported with its own code");
	} else if (!all_have_key) {
		VASSERT(rc != RTR_BGPSEC_VALID, "C11: a hop without a router key for its SKI and AS is never VALID");
#ifdef ASSERT_KEY_CODE
		VASSERT(rc == RTR_BGPSEC_ROUTER_KEY_NOT_FOUND, "C11: a missing router key is reported with its own code");
#endif
	}
	VASSERT(rc != RTR_BGPSEC_VALID || (alg_ok && afi_ok && !wrong_count), "C11: never VALID for unsupported suite / AFI / wrong counts");
	if (rc == RTR_BGPSEC_VALID) {
		VASSERT(all_verify, "C11: VALID only if every hop's signature verifies under a key of its SKI and AS");
		VASSERT(n_hash == NH, "C11: one digest per hop");
	}
	if (alg_ok && afi_ok && !wrong_count && all_verify && !d2i_fails && !check_fails) {
		/* every hop has a good key; the answer may only differ if another key of the same SKI errs first */
		bool any_err = false;

		for (unsigned int h = 0; h < NH; h++)
			for (unsigned int k = 0; k < NKEYS; k++)
				if (key_used[k] && ski_eq(KEYS[k].ski, SIG[h].ski) && ver[h][k] == -1)
					any_err = true;
		if (!any_err)
			VASSERT(rc == RTR_BGPSEC_VALID, "C11: VALID when every hop verifies under a registered key");
	}
	VASSERT(verify_args_ok, "C11: every ECDSA verification uses the hop's own signature bytes, length and digest");
	VASSERT(verify_key_ok, "C11: every ECDSA verification uses a key registered for the hop's SKI and AS");

	/* ---- bytes hashed per hop == RFC 8205 reference ---- */
	for (unsigned int h = 0; h < NH; h++) {
		if (h >= n_hash)
			break;
		uint8_t ref[MAXSTREAM];
		unsigned int n = ref_bytes(ref, h, h == 0 ? D.target_as : PATH[h - 1].asn, NH, NH, 1);
		bool same = hashed_len[h] == n;

		for (unsigned int i = 0; i < MAXSTREAM; i++) {
			if (i >= n)
				break;
			if (hashed[h][i] != ref[i])
				same = false;
		}
		VASSERT(same, "C11: the bytes hashed for a hop are exactly the RFC 8205 section 4.2 sequence");
	}
	VWITNESS("bgpsec validate end");
}

void harness_sign(void)
{
	/* forwarding: NH path segments (own segment first), NH-1 existing signatures */
	arbitrary_path(NH, NH - 1);
	d2i_fails = ND_BOOL("d2i.fails");
	check_fails = ND_BOOL("check.fails");
	ecdsa_size_ret = ND(uint8_t, "ecdsa.size");
	VASSUME(ecdsa_size_ret == 0 || ecdsa_size_ret == 8);
	sign_len = ND(uint8_t, "sign.len");
	VASSUME(sign_len <= 8);
	for (unsigned int i = 0; i < 8; i++)
		sign_bytes[i] = ND(uint8_t, "sign.byte");
	bool wrong_count = ND_BOOL("wrong.count");

	if (wrong_count)
		D.sigs_len = NH;
	uint8_t priv[121];
	struct rtr_signature_seg *out = NULL;

	n_hash = n_sign = 0;
	int rc = rtr_bgpsec_generate_signature(&D, priv, &out);
	bool alg_ok = D.alg == RTR_BGPSEC_ALGORITHM_SUITE_1;
	bool afi_ok = NL.afi == 1 || NL.afi == 2;

	if (!alg_ok)
		VASSERT(rc == RTR_BGPSEC_UNSUPPORTED_ALGORITHM_SUITE, "C12: unsupported suite has its own code");
	else if (!afi_ok)
		VASSERT(rc == RTR_BGPSEC_UNSUPPORTED_AFI, "C12: unsupported AFI has its own code");
	else if (wrong_count)
		VASSERT(rc == RTR_BGPSEC_WRONG_SEGMENT_COUNT, "C12: wrong segment counts have their own code");
	else if (d2i_fails || check_fails || ecdsa_size_ret == 0)
		VASSERT(rc == RTR_BGPSEC_LOAD_PRIV_KEY_ERROR, "C12: an unloadable private key has its own code");
	else if (sign_len == 0)
		VASSERT(rc == RTR_BGPSEC_SIGNING_ERROR, "C12: a failed signing operation is reported");
	else {
		VASSERT(rc == RTR_BGPSEC_SUCCESS, "C12: signing succeeds");
		VASSERT(out && out->sig_len == sign_len, "C12: the segment carries the signature length ECDSA produced");
		bool same = true;

		for (unsigned int i = 0; i < 8; i++) {
			if (i >= sign_len)
				break;
			if (!out || out->signature[i] != sign_bytes[i])
				same = false;
		}
		VASSERT(same, "C12: the segment carries exactly the signature bytes ECDSA produced");
		VASSERT(n_hash == 1 && n_sign == 1 && sign_digest_tag == 1, "C12: one digest, signed once");
		/* the digest input is the RFC 8205 signing sequence: target AS, then for each secure path
		 * segment the signature segment received with it (own segment has none yet)
		 */
		uint8_t ref[MAXSTREAM];
		unsigned int n = ref_bytes(ref, 0, D.target_as, NH, NH - 1, 0);
		bool eq = hashed_len[0] == n;

		for (unsigned int i = 0; i < MAXSTREAM; i++) {
			if (i >= n)
				break;
			if (hashed[0][i] != ref[i])
				eq = false;
		}
		VASSERT(eq, "C12: the bytes signed are exactly the RFC 8205 section 4.2 sequence");
	}
	VWITNESS("bgpsec sign end");
}
