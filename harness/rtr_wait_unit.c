/*
 * C17(c): rtr_wait_for_sync() with a symbolic clock: the receive timeout is exactly
 * max(0, last_update + refresh_interval - now), so the cache is polled no later than the refresh
 * interval after the last synchronisation, and at once when a Serial Notify arrives.
 * rtr_receive_pdu is replaced by a contract stub that records the timeout it is given.
 */
#include "verif.h"

#include "rtrlib/rtr/packets.c"

#include "libc_model.h"

static time_t env_now;
static time_t env_returned;
static unsigned int env_clock_calls;
int lrtr_get_monotonic_time(time_t *seconds)
{
	env_clock_calls++;
	env_returned = env_now;
	*seconds = env_now;
	return 0;
}

static time_t seen_timeout;
static unsigned int recv_calls;
static int stub_rc;
static uint8_t stub_type;

int stub_receive_pdu(struct rtr_socket *s, void *pdu, const size_t pdu_len, const time_t timeout)
{
	(void)s;
	VASSERT(pdu_len >= RTR_MAX_PDU_LEN, "receive contract: full-size buffer");
	recv_calls++;
	seen_timeout = timeout;
	if (stub_rc == RTR_SUCCESS) {
		struct pdu_header *h = pdu;

		h->type = stub_type;
	}
	return stub_rc;
}

void harness(void)
{
	struct rtr_socket s;

	s.last_update = ND(uint32_t, "last_update");
	s.refresh_interval = ND(uint32_t, "refresh");
	env_now = ND(uint32_t, "now");
	s.state = RTR_ESTABLISHED;
	s.connection_state_fp = NULL;
	stub_rc = ND(int, "recv.rc");
	VASSUME(stub_rc == RTR_SUCCESS || stub_rc == RTR_ERROR || stub_rc == TR_WOULDBLOCK || stub_rc == TR_INTR || stub_rc == TR_CLOSED);
	stub_type = ND(uint8_t, "recv.type");
	VASSUME(stub_type <= ERROR && stub_type != RESERVED);

	int rc = rtr_wait_for_sync(&s);
	int64_t due = (int64_t)s.last_update + (int64_t)s.refresh_interval;
	int64_t expect = due - (int64_t)env_now;

	if (expect < 0)
		expect = 0;
	VASSERT(recv_calls == 1, "C17 wait: waits exactly once");
	VASSERT((int64_t)seen_timeout == expect, "C17 wait: timeout is max(0, last_update + refresh_interval - now)");
	VASSERT(env_now < s.last_update || (int64_t)seen_timeout <= (int64_t)s.refresh_interval,
		"C17 wait: never waits longer than the refresh interval");
	bool poll = (stub_rc == RTR_SUCCESS && stub_type == SERIAL_NOTIFY) || stub_rc == TR_WOULDBLOCK;

	VASSERT((rc == RTR_SUCCESS) == poll, "C17 wait: polls the cache exactly on Serial Notify or when the refresh timer expires");
	VASSERT(rc == RTR_SUCCESS || rc == RTR_ERROR, "wait: return code");
	VWITNESS("wait end");
}
