/*
 * C17(a): rtr_init() accepts the three intervals exactly when all are inside the RFC 8210 ranges.
 * All 2^96 combinations are symbolic.
 */
#include "verif.h"

#include "rtrlib/rtr/rtr_private.h"
#include "rtrlib/transport/transport.h"

void harness(void)
{
	struct rtr_socket s;
	struct tr_socket tr;
	unsigned int refresh = ND(uint32_t, "refresh"), expire = ND(uint32_t, "expire"), retry = ND(uint32_t, "retry");
	uint8_t mode = ND(uint8_t, "mode");

	VASSUME(mode <= RTR_INTERVAL_MODE_IGNORE_ON_FAILURE);
	s.refresh_interval = s.expire_interval = s.retry_interval = 0xdeadbeef;
	int rc = rtr_init(&s, &tr, NULL, NULL, refresh, expire, retry, (enum rtr_interval_mode)mode, NULL, NULL, NULL);
	bool ok = refresh >= 1 && refresh <= 86400 && expire >= 600 && expire <= 172800 && retry >= 1 && retry <= 7200;

	VASSERT((rc == RTR_SUCCESS) == ok, "C17 init: accepted exactly when refresh, expire and retry are inside their RFC 8210 ranges");
	VASSERT(ok || rc == RTR_INVALID_PARAM, "C17 init: out-of-range interval reported as invalid parameter");
	if (rc == RTR_SUCCESS) {
		VASSERT(s.refresh_interval == refresh && s.expire_interval == expire && s.retry_interval == retry,
			"C17 init: intervals stored as given");
		VASSERT(s.iv_mode == (enum rtr_interval_mode)mode, "C17 init: interval mode stored");
		VASSERT(s.state == RTR_CLOSED && s.request_session_id && s.last_update == 0 && !s.is_resetting &&
				s.version == 1 && !s.has_received_pdus,
			"init: socket starts closed, without session or data, at the highest version");
	}
	VWITNESS("init end");
}
