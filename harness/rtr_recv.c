/*
 * C04-2 / C13(a) / C14: the real rtr_receive_pdu() on an ARBITRARY byte stream.
 *
 * Symbolic: STREAM_LEN bytes of stream, transport faults at any receive call, the negotiated
 * version, has_received_pdus, the socket state; send may fail.
 * Unscaled: the real RTR_MAX_PDU_LEN (3248) receive buffer.
 * Built-in CBMC checks (pointer, bounds, overflow, shift) on in the C04 job.
 */
#include "verif.h"

#include "rtrlib/rtr/packets.c"

#include "libc_model.h"
#include "wire.h"

static unsigned int state_changes;
static enum rtr_socket_state last_state;

static void state_cb(const struct rtr_socket *s, const enum rtr_socket_state st, void *a, void *b)
{
	(void)s;
	(void)a;
	(void)b;
	state_changes++;
	last_state = st;
}

static unsigned int type_len_ok(uint8_t type, uint32_t len, unsigned int version, const uint8_t *raw)
{
	switch (type) {
	case SERIAL_NOTIFY:
	case SERIAL_QUERY:
		return len == 12;
	case RESET_QUERY:
	case CACHE_RESPONSE:
	case CACHE_RESET:
		return len == 8;
	case IPV4_PREFIX:
		return len == 20;
	case IPV6_PREFIX:
		return len == 32;
	case EOD:
		return (version == 0 && len == 12) || (version == 1 && len == 24);
	case ROUTER_KEY:
		return len == 123;
	case ERROR: {
		if (len < 16)
			return 0;
		uint32_t enc = w_be32(raw + 8);

		if ((uint64_t)16 + enc > len)
			return 0;
		if (12 + (uint64_t)enc + 4 > STREAM_LEN)
			return 0; /* cannot be: the PDU was fully contained in the stream */
		uint32_t tl = w_be32(raw + 12 + enc);

		return (uint64_t)16 + enc + tl == len;
	}
	default:
		return 0;
	}
}

#ifdef REPORT_LEN_STUB
/* Contract stub for the static rtr_send_error_pdu (goto-instrument --replace-calls): decides, without the
 * sender's variable-length arrays (a symbolic VLA size is the one thing CBMC cannot digest here), that
 * rtr_receive_pdu never asks for more bytes to be encapsulated / copied than it has received and than the
 * objects it passes hold. The sender itself is decided in rtr_errpdu_unit.c and in the unstubbed jobs. */
int stub_send_error_pdu(const struct rtr_socket *rtr_socket, const void *erroneous_pdu,
			       const uint32_t erroneous_pdu_len, const enum pdu_error_type error, const char *err_text,
			       const uint32_t err_text_len)
{
	(void)rtr_socket;
	(void)error;
	VASSERT(erroneous_pdu_len <= RTR_MAX_PDU_LEN, "C04: error report asked to encapsulate at most RTR_MAX_PDU_LEN bytes");
	VASSERT(erroneous_pdu_len <= w_pos - w_pdu_start,
		"C04: error report asked to encapsulate at most the bytes received of the offending PDU");
	VASSERT(erroneous_pdu_len == 0 || (erroneous_pdu && __CPROVER_r_ok(erroneous_pdu, erroneous_pdu_len)),
		"C04: encapsulated bytes lie inside the object passed to the error report sender");
	VASSERT(err_text_len == 0 || (err_text && __CPROVER_r_ok(err_text, err_text_len)),
		"C04: error text bytes lie inside the object passed to the error report sender");
	return ND_BOOL("errpdu_send_fails") ? RTR_ERROR : RTR_SUCCESS;
}
#endif

void harness(void)
{
	struct rtr_socket sock;
	struct tr_socket tr;
	char pdu[RTR_MAX_PDU_LEN];

	w_init_stream();
	w_sock = &sock;
	w_send_may_fail = true;
	sock.tr_socket = &tr;
	sock.version = ND(uint8_t, "sock.version");
	VASSUME(sock.version <= 1);
	sock.has_received_pdus = ND_BOOL("sock.has_received");
	uint8_t st = ND(uint8_t, "sock.state");

	VASSUME(st <= RTR_CLOSED);
	sock.state = (enum rtr_socket_state)st;
	sock.connection_state_fp = state_cb;
	sock.connection_state_fp_param_config = NULL;
	sock.connection_state_fp_param_group = NULL;
	sock.request_session_id = ND_BOOL("sock.reqsess");
	sock.session_id = ND(uint16_t, "sock.session");

	const unsigned int v0 = sock.version;
	const bool first = !sock.has_received_pdus;
	const enum rtr_socket_state st0 = sock.state;
	time_t tmo = ND(uint32_t, "timeout");

	int rc = rtr_receive_pdu(&sock, pdu, RTR_MAX_PDU_LEN, tmo);

	/* ---- C04: always returns one of its documented codes ---- */
	VASSERT(rc == RTR_SUCCESS || rc == RTR_ERROR || rc == TR_WOULDBLOCK || rc == TR_INTR || rc == TR_CLOSED,
		"C04 receive: returns a documented code");
	VASSERT(sock.version <= v0, "C13 receive: version never increases");

	const uint8_t hv = w_stream[0], ht = w_stream[1];
	const uint32_t hlen = w_be32(w_stream + 4);
	const bool got_header = (w_recv_calls >= 1 && !(w_recv_fault && w_recv_calls == 1) && st0 != RTR_SHUTDOWN);
	/* expected negotiated version after looking at the header */
	unsigned int vexp = v0;

	if (got_header && hlen >= 8 && hlen <= RTR_MAX_PDU_LEN && first && v0 == 1 && hv == 0 && ht != ERROR)
		vexp = 0;
#ifdef ASSERT_C13
	if (got_header && hlen >= 8 && hlen <= RTR_MAX_PDU_LEN) {
		VASSERT(sock.version == vexp,
			"C13 receive: version lowered exactly when the first PDU of a connection carries a lower supported version");
		VASSERT(sock.has_received_pdus, "C13 receive: first-PDU flag consumed");
	} else {
		VASSERT(sock.version == v0, "C13 receive: version untouched when no valid header was read");
	}
#endif
	if (st0 == RTR_SHUTDOWN) {
		VASSERT(rc == RTR_ERROR && w_nsent == 0 && w_recv_calls == 0, "receive: nothing happens on a shut-down socket");
		VWITNESS("shutdown end");
		return;
	}

	if (rc == RTR_SUCCESS) {
		/* the PDU handed on is fully contained in the stream, has a supported type and a length
		 * consistent with its type; header version is the negotiated one (or it is an Error Report)
		 */
		VASSERT(!w_recv_fault, "C04 receive: success only without transport fault");
		VASSERT(hlen >= 8 && hlen <= RTR_MAX_PDU_LEN, "C04 receive: accepted length within [8, max]");
		VASSERT(w_pos == hlen, "C04 receive: exactly the PDU's bytes were consumed");
		VASSERT(type_len_ok(ht, hlen, sock.version == hv ? hv : (ht == ERROR ? hv : 99), w_stream),
			"C04 receive: accepted PDU has a known type and the length of that type");
		VASSERT(((struct pdu_header *)pdu)->len == hlen && ((struct pdu_header *)pdu)->type == ht,
			"C04 receive: header handed on in host byte order");
		VASSERT(w_nsent == 0, "C14 receive: nothing is sent for an accepted PDU");
		/* the PDU handed on is the PDU as received: single-byte fields unchanged, multi-byte fields
		 * converted to host order (an Error Report later echoes this copy, C14)
		 */
		if (ht == IPV4_PREFIX || ht == IPV6_PREFIX) {
			const struct pdu_ipv4 *p = (const struct pdu_ipv4 *)pdu;

			VASSERT(p->flags == w_stream[8] && p->prefix_len == w_stream[9] && p->max_prefix_len == w_stream[10] &&
					p->zero == w_stream[11],
				"C14 receive: flags, lengths and the reserved octet of a prefix PDU are handed on as received");
			if (ht == IPV4_PREFIX)
				VASSERT(p->prefix == w_be32(w_stream + 12) && p->asn == w_be32(w_stream + 16),
					"C04 receive: prefix and AS of an IPv4 PDU are handed on in host byte order");
			else
				VASSERT(((const struct pdu_ipv6 *)pdu)->prefix[0] == w_be32(w_stream + 12) &&
						((const struct pdu_ipv6 *)pdu)->prefix[3] == w_be32(w_stream + 24) &&
						((const struct pdu_ipv6 *)pdu)->asn == w_be32(w_stream + 28),
					"C04 receive: prefix and AS of an IPv6 PDU are handed on in host byte order");
		}
		if (ht == ROUTER_KEY && STREAM_LEN >= 123) {
			const struct pdu_router_key *p = (const struct pdu_router_key *)pdu;

			VASSERT(p->flags == w_stream[2] && p->zero == w_stream[3] && p->ski[0] == w_stream[8] &&
					p->ski[19] == w_stream[27] && p->asn == w_be32(w_stream + 28) && p->spki[0] == w_stream[32] &&
					p->spki[90] == w_stream[122],
				"C14 receive: a Router Key PDU is handed on as received");
		}
		if (ht == EOD || ht == SERIAL_NOTIFY || ht == CACHE_RESPONSE)
			VASSERT(((const struct pdu_serial_notify *)pdu)->session_id == w_be16(w_stream + 2),
				"C05 receive: the session id is handed on in host byte order");
		if (ht == EOD || ht == SERIAL_NOTIFY)
			VASSERT(((const struct pdu_serial_notify *)pdu)->sn == w_be32(w_stream + 8),
				"C05 receive: the serial number is handed on in host byte order");
		if (ht == EOD && hlen == 24)
			VASSERT(((const struct pdu_end_of_data_v1 *)pdu)->refresh_interval == w_be32(w_stream + 12) &&
					((const struct pdu_end_of_data_v1 *)pdu)->retry_interval == w_be32(w_stream + 16) &&
					((const struct pdu_end_of_data_v1 *)pdu)->expire_interval == w_be32(w_stream + 20),
				"C17 receive: the intervals of End of Data are handed on in host byte order");
#ifdef ASSERT_C13
		VASSERT(hv == sock.version || ht == ERROR, "C13 receive: accepted PDU carries the negotiated version");
		if (ht == EOD)
			VASSERT((sock.version == 0 && hlen == 12) || (sock.version == 1 && hlen == 24),
				"C13 receive: End of Data accepted only in the negotiated version's own format");
#endif
	}

	/* ---- every byte sequence handed to the transport is one well-formed PDU ---- */
	VASSERT(w_nsent <= 1, "C14 receive: at most one PDU sent per received PDU");
	if (w_nsent >= 1)
		w_check_sent_wellformed(0);

	/* ---- violation classes ---- */
	if (got_header && rc != RTR_SUCCESS) {
		bool transport_fault = w_recv_fault != 0;

		if (hlen < 8 || hlen > RTR_MAX_PDU_LEN) {
			VASSERT(rc == RTR_ERROR, "C04 receive: bad length field fails the exchange");
#ifdef ASSERT_C14
			if (ht != ERROR) {
				VASSERT(w_nsent == 1, "C14 receive: one Error Report for a bad length field");
				if (w_nsent == 1)
					w_check_error_report(0, CORRUPT_DATA, w_stream, 8, 8);
			} else {
				VASSERT(w_nsent == 0, "C14 receive: no Error Report in reply to an Error Report");
			}
#endif
		} else if (hv != vexp && ht != ERROR) {
			VASSERT(rc == RTR_ERROR, "C13 receive: PDU with a version other than the negotiated one is refused");
			VASSERT(w_recv_calls == 1, "C13 receive: payload of a refused PDU is not read into the buffer");
#ifdef ASSERT_C14
			VASSERT(w_nsent == 1, "C14 receive: one Error Report for an unexpected version");
			if (w_nsent == 1)
				w_check_error_report(0, UNEXPECTED_PROTOCOL_VERSION, w_stream, 8, 8);
#endif
		} else if (!transport_fault) {
			/* header fine, payload read: must be a type/length inconsistency */
			VASSERT(rc == RTR_ERROR, "C04 receive: inconsistent PDU fails the exchange");
			VASSERT(!type_len_ok(ht, hlen, vexp, w_stream), "C04 receive: a PDU is only refused when type and length disagree");
#ifdef ASSERT_C14
			if (ht != ERROR) {
				VASSERT(w_nsent == 1, "C14 receive: one Error Report for a malformed PDU");
				if (w_nsent == 1)
					w_check_error_report(0, CORRUPT_DATA, w_stream, hlen, 8);
			} else {
				VASSERT(w_nsent == 0, "C14 receive: no Error Report in reply to an Error Report");
			}
#endif
		} else {
			VASSERT(w_nsent == 0, "C14 receive: no report when the transport failed");
		}
	}
	if (!got_header)
		VASSERT(w_nsent == 0 && rc != RTR_SUCCESS, "receive: no header, no PDU, nothing sent");

	/* transport faults map to their codes (C13 c relies on TR_CLOSED being reported as such) */
	if (w_recv_fault && rc != RTR_SUCCESS) {
		if (w_recv_fault == TR_WOULDBLOCK)
			VASSERT(rc == TR_WOULDBLOCK, "receive: timeout reported as TR_WOULDBLOCK");
		if (w_recv_fault == TR_INTR)
			VASSERT(rc == TR_INTR, "receive: interruption reported as TR_INTR");
		if (w_recv_fault == TR_ERROR)
			VASSERT(rc == RTR_ERROR && sock.state == RTR_ERROR_TRANSPORT, "receive: transport error enters ERROR_TRANSPORT");
#ifdef ASSERT_C13
		if (w_recv_fault == TR_CLOSED)
			VASSERT(rc == TR_CLOSED, "C13 receive: a closed connection is reported as TR_CLOSED (needed for the hang-up downgrade)");
#endif
	}
	VWITNESS("receive end");
}
