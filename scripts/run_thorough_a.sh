#!/bin/sh
cd /verif
for p in C20 C17 C13 C14 C03 C05 C07 C08 C06 C11 C12 C16; do
  s=$(date +%s); ./check $p --tier thorough --no-evidence > .work/thor_$p.out 2>&1; rc=$?; e=$(date +%s)
  echo "$p rc=$rc $((e-s))s $(tail -1 .work/thor_$p.out | cut -c1-150)"
done
