#!/bin/sh
# runs every registered check of one tier sequentially (as vp check does) and summarises
TIER=${1:-quick}
cd /verif
for p in C20 C17 C13 C14 C03 C05 C07 C08 C06 C11 C12 C04 C19 C01 C16 C18 C02 C09 C15 C10; do
  s=$(date +%s)
  ./check $p --tier $TIER > .work/run_$p.out 2>&1
  rc=$?
  e=$(date +%s)
  echo "$p rc=$rc $((e-s))s $(tail -1 .work/run_$p.out | cut -c1-150)"
done
