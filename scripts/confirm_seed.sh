#!/bin/sh
# usage: scripts/confirm_seed.sh /tmp/wt_CXX   -- independently confirms a seeded change:
# builds with the patch, runs the 12 offline tests, runs the demo (must fail), reverts, rebuilds, runs the demo (must pass)
WT=$1
cd $WT || exit 2
B=_confirm_build
git checkout -q -- rtrlib third-party 2>/dev/null
git apply seed/patch.diff || { echo "CONFIRM $WT: patch does not apply"; exit 1; }
rm -rf $B
cmake -G Ninja -B $B -DCMAKE_BUILD_TYPE=RelWithDebInfo -DUNIT_TESTING=ON . >/dev/null 2>&1 && cmake --build $B >/dev/null 2>&1 || { echo "CONFIRM $WT: build failed"; exit 1; }
T=$(ctest --test-dir $B -j8 -E 'test_live_validation|test_dynamic_groups' 2>&1 | grep "tests passed")
sh seed/run_demo.sh $B >/dev/null 2>&1; with=$?
git apply -R seed/patch.diff
cmake --build $B >/dev/null 2>&1
sh seed/run_demo.sh $B >/dev/null 2>&1; without=$?
git apply seed/patch.diff
rm -rf $B
echo "CONFIRM $WT: tests-with-change: [$T]; demo with change rc=$with (want !=0), without rc=$without (want 0)"
