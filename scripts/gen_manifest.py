#!/usr/bin/env python3
"""Regenerates /verif/MANIFEST.json from the MANIFEST dicts of props/Cxx.py and NOT_APPLICABLE below."""
import importlib, json, os, sys
HERE = os.path.dirname(os.path.dirname(os.path.abspath(__file__)))
sys.path.insert(0, HERE)
ALL = ["C%02d" % i for i in range(1, 21)]
NOT_APPLICABLE = {}
try:
    NOT_APPLICABLE = json.load(open(os.path.join(HERE, "not_applicable.json")))
except Exception:
    pass
checks = []
na = []
served = []
for pid in ALL:
    try:
        mod = importlib.import_module("props." + pid)
        m = getattr(mod, "MANIFEST")
    except Exception as e:
        na.append({"property_id": pid, "reason": NOT_APPLICABLE.get(pid, "no check built yet for this property (work in progress)")})
        continue
    if pid in NOT_APPLICABLE:
        na.append({"property_id": pid, "reason": NOT_APPLICABLE[pid]})
        continue
    served.append(pid)
    checks.append({
        "property_id": pid,
        "quick_cmd": "./check %s --tier quick" % pid,
        "thorough_cmd": "./check %s --tier thorough" % pid,
        "evidence_file": "evidence/%s.json" % pid,
        "replay_cmd_template": "./check %s --replay {path}" % pid,
        "engine": "cbmc",
        "level_claimed": {"category": "model_checking", "text": m["text"], "design_ref": m.get("design_ref", "DESIGN.md section 3, " + pid)},
        "level_note": m["note"],
        "technique": m.get("technique", "bounded symbolic execution of the real C sources with CBMC 6.11 (SAT back end), unwinding assertions on"),
    })
man = {
    "version": 1,
    "setup_cmd": "python3 -m compileall -q engine props check >/dev/null && command -v cbmc goto-cc goto-instrument gcc >/dev/null && test -d /repo/rtrlib",
    "hooks": {
        "guard": "RTRLIB_VERIF",
        "enable": "every goto-cc invocation of engine/core.py passes -DRTRLIB_VERIF (plus per-job scaling macros); rtrlib's own build system never defines it",
        "baseline_off_cmd": "/verif/scripts/baseline_off.sh",
        "source_commits": json.load(open(os.path.join(HERE, "hook_commits.json"))) if os.path.exists(os.path.join(HERE, "hook_commits.json")) else [],
        "add_only": True,
    },
    "engines": [{"name": "cbmc", "path": "engine/core.py", "serves_properties": served,
                 "kind_free_text": "goto-cc compiles harness + real rtrlib sources from /repo's working tree; CBMC 6.11 bounded symbolic execution, MiniSat/CaDiCaL back end; counterexamples replayed natively under ASan/UBSan"}],
    "checks": checks,
    "not_applicable": na,
    "notes": "All results are bounded: 'holds for every input within the bounds listed in the evidence file'. Exit 3 = inconclusive (timeout/OOM), never reported as success.",
}
json.dump(man, open(os.path.join(HERE, "MANIFEST.json"), "w"), indent=1)
print("checks:", served, "not_applicable:", [x["property_id"] for x in na])
