#!/bin/sh
# usage: scripts/run_seed.sh <seed-dir> <PROP> [tier] [--jobs filter]
# applies seeded/<id>/patch.diff to /repo, runs the check, restores /repo. Prints the verdict.
SEED=$(cd "$1" && pwd); PROP=$2; TIER=${3:-quick}; shift 3 2>/dev/null
cd /repo || exit 2
if [ -n "$(git status --porcelain --untracked-files=no)" ]; then echo "/repo not clean"; exit 2; fi
git apply "$SEED/patch.diff" || { echo "patch does not apply"; exit 2; }
cd /verif
./check $PROP --tier $TIER --no-evidence "$@" > .work/seed_$(basename $SEED)_$PROP.out 2>&1
rc=$?
git -C /repo checkout -- .
echo "seed=$(basename $SEED) prop=$PROP tier=$TIER rc=$rc :: $(grep -c '^VIOLATION' .work/seed_$(basename $SEED)_$PROP.out) violation line(s); $(tail -1 .work/seed_$(basename $SEED)_$PROP.out | cut -c1-120)"
exit $rc
