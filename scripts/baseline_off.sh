#!/bin/sh
# Runs rtrlib's own test suite with the RTRLIB_VERIF guard OFF (the guard is never
# defined by the repository's build system; only /verif's goto-cc invocations pass it).
set -e
cd /repo
if [ ! -f _build/build.ninja ] && [ ! -f _build/Makefile ]; then
	cmake -G Ninja -B _build -DCMAKE_BUILD_TYPE=RelWithDebInfo -DUNIT_TESTING=ON . >/dev/null
fi
if grep -rq "RTRLIB_VERIF" _build/CMakeCache.txt 2>/dev/null; then
	echo "guard leaked into the build configuration"; exit 1
fi
cmake --build _build >/dev/null
# test_live_validation and test_dynamic_groups need the network (always_fail in BASELINE.json)
ctest --test-dir _build -j8 --timeout 900 -E 'test_live_validation|test_dynamic_groups' --output-on-failure
