#!/bin/sh
# usage: scripts/run_seed_scratch.sh <seed-dir> <PROP> [tier] [--jobs filter]
# Like run_seed.sh, but applies the patch to a scratch worktree of /repo (under /tmp, removed afterwards) and
# points the check at it with VERIF_REPO, so /repo itself is never touched (usable while other checks run).
SEED=$(cd "$1" && pwd); PROP=$2; TIER=${3:-quick}; shift 3 2>/dev/null
WT=/tmp/seedrepo_$(basename $SEED)_$$
git -C /repo worktree add -q --detach $WT HEAD || exit 2
( cd $WT && git apply "$SEED/patch.diff" ) || { echo "patch does not apply"; git -C /repo worktree remove --force $WT; exit 2; }
cd /verif
VERIF_REPO=$WT ./check $PROP --tier $TIER --no-evidence "$@" > .work/seed_$(basename $SEED)_$PROP.out 2>&1
rc=$?
git -C /repo worktree remove --force $WT; git -C /repo worktree prune
echo "seed=$(basename $SEED) prop=$PROP tier=$TIER rc=$rc :: $(grep -c '^VIOLATION' .work/seed_$(basename $SEED)_$PROP.out) violation line(s); $(tail -1 .work/seed_$(basename $SEED)_$PROP.out | cut -c1-120)"
exit $rc
