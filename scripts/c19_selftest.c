/*
 * Oracle validation for C19 (NOT the deciding step): the reference parsers ref_pton6/ref_pton4 and the
 * libc format models of harness/ipstr.c are compared with glibc's inet_pton, printf and sscanf on
 * structured and random inputs.  Exit 0 = all agree.
 */
#define VERIF_NATIVE
#define REF_SELFTEST
#define MODEL_SELFTEST
#define STRN 48
#include "../harness/ipstr.c"

#include <stdio.h>
#include <stdlib.h>

static unsigned long long rs = 88172645463325252ULL;
static unsigned int rnd(void)
{
	rs ^= rs << 13;
	rs ^= rs >> 7;
	rs ^= rs << 17;
	return (unsigned int)(rs >> 11);
}

static int fails;
static void cmp6(const char *s)
{
	uint16_t w[8];
	struct in6_addr a;
	int r = ref_pton6(s, w), g = inet_pton(AF_INET6, s, &a) == 1;

	if (r != g) {
		fprintf(stderr, "pton6 disagreement on '%s': ref=%d glibc=%d\n", s, r, g);
		fails++;
		return;
	}
	if (r)
		for (int i = 0; i < 8; i++)
			if (w[i] != ((a.s6_addr[2 * i] << 8) | a.s6_addr[2 * i + 1])) {
				fprintf(stderr, "pton6 value disagreement on '%s'\n", s);
				fails++;
				return;
			}
}

static void cmp4(const char *s)
{
	uint8_t o[4];
	struct in_addr a;
	int r = ref_pton4(s, o), g = inet_pton(AF_INET, s, &a) == 1;

	if (r != g || (r && memcmp(o, &a, 4))) {
		fprintf(stderr, "pton4 disagreement on '%s': ref=%d glibc=%d\n", s, r, g);
		fails++;
	}
}

int main(void)
{
	static const char alpha[] = "0123456789abcdefABCDEF::::....  gx";
	char s[64], t[64];

	/* structured: formatted addresses and single-character mutations / truncations of them */
	for (int n = 0; n < 40000; n++) {
		struct in6_addr a;

		for (int i = 0; i < 16; i++)
			a.s6_addr[i] = (rnd() % 3) ? 0 : (uint8_t)rnd();
		if (n % 5 == 0)
			memset(a.s6_addr, 0, 10), a.s6_addr[10] = a.s6_addr[11] = (n % 10) ? 0xff : 0;
		inet_ntop(AF_INET6, &a, s, sizeof(s));
		cmp6(s);
		strcpy(t, s);
		t[rnd() % (strlen(t) + 1)] = 0;
		cmp6(t);
		strcpy(t, s);
		if (strlen(t))
			t[rnd() % strlen(t)] = alpha[rnd() % (sizeof(alpha) - 1)];
		cmp6(t);
		struct in_addr b;

		b.s_addr = rnd();
		inet_ntop(AF_INET, &b, s, sizeof(s));
		cmp4(s);
		strcpy(t, s);
		t[rnd() % strlen(t)] = alpha[rnd() % (sizeof(alpha) - 1)];
		cmp4(t);
	}
	/* random short strings */
	for (int n = 0; n < 400000; n++) {
		unsigned int len = rnd() % 14;

		for (unsigned int i = 0; i < len; i++)
			s[i] = alpha[rnd() % (sizeof(alpha) - 1)];
		s[len] = 0;
		cmp6(s);
		cmp4(s);
	}
	/* models */
	for (unsigned int v = 0; v <= 0xffff; v++) {
		char a[16], b[16];

		sprintf(a, "%x", v);
		m_sprintf(b, "%x", (uint16_t)v);
		if (strcmp(a, b)) {
			fprintf(stderr, "%%x model differs for %u\n", v);
			fails++;
		}
	}
	for (int n = 0; n < 100000; n++) {
		char a[64], b[64];
		uint8_t o[4] = {(uint8_t)rnd(), (uint8_t)rnd(), (uint8_t)rnd(), (uint8_t)rnd()};
		size_t len = rnd() % 20;
		const char *pre = (n & 1) ? "ffff:" : "";

		memset(a, 0x55, sizeof(a));
		memset(b, 0x55, sizeof(b));
		int ra = snprintf(a, len, "%hhu.%hhu.%hhu.%hhu", o[0], o[1], o[2], o[3]);
		int rb = m_snprintf(b, len, "%hhu.%hhu.%hhu.%hhu", o[0], o[1], o[2], o[3]);

		if (ra != rb || memcmp(a, b, sizeof(a))) {
			fprintf(stderr, "dotted-quad snprintf model differs (len %zu)\n", len);
			fails++;
		}
		sprintf(a, "::%s%d.%d.%d.%d", pre, o[0], o[1], o[2], o[3]);
		m_sprintf(b, "::%s%d.%d.%d.%d", pre, (unsigned int)o[0], (unsigned int)o[1], (unsigned int)o[2], (unsigned int)o[3]);
		if (strcmp(a, b)) {
			fprintf(stderr, "embedded-IPv4 sprintf model differs: %s vs %s\n", a, b);
			fails++;
		}
	}
	static const char salpha[] = "0123456789..  +-a:";
	for (int n = 0; n < 400000; n++) {
		unsigned int len = rnd() % 18;
		uint8_t x[4] = {1, 2, 3, 4}, y[4] = {1, 2, 3, 4};

		for (unsigned int i = 0; i < len; i++)
			s[i] = salpha[rnd() % (sizeof(salpha) - 1)];
		s[len] = 0;
		int ra = sscanf(s, "%3hhu.%3hhu.%3hhu.%3hhu", &x[0], &x[1], &x[2], &x[3]);
		int rb = m_sscanf(s, "%3hhu.%3hhu.%3hhu.%3hhu", &y[0], &y[1], &y[2], &y[3]);

		if (ra < 0)
			ra = 0; /* EOF before the first conversion: the caller only tests != 4 */
		if (ra != rb || memcmp(x, y, (size_t)(ra < 4 ? ra : 4))) {
			fprintf(stderr, "sscanf model differs on '%s': glibc=%d model=%d\n", s, ra, rb);
			fails++;
		}
	}
	if (fails) {
		fprintf(stderr, "c19 selftest: %d disagreements\n", fails);
		return 1;
	}
	printf("c19 selftest: reference parsers and libc models agree with glibc\n");
	return 0;
}
